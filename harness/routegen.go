package main

// Seeded generators of route tables and of requests derived from them (matching requests
// and near misses).  Everything random is drawn from the *rand.Rand passed in.

import (
	"bytes"
	"fmt"
	"math/rand"
	"strings"
)

var (
	litPool    = []string{"a", "b", "ab", "users", "v1", "a.f", "x-y", "B", "a b", "caf\u00e9", "x,y", "a;b"}
	rePool     = []string{"[0-9]+", "[a-z]+", "[a-z0-9]+", "[A-Z][A-Z]", "[0-9]{2}", "(cats|dogs)", "(a|b)-(c|d)"}
	sufPool    = []string{".f", ".txt", "-x"}
	verbPool   = []string{":go", ":undo"}
	methodPool = []string{"GET", "POST", "PUT", "DELETE", "PATCH"}
	mimePool   = []string{"application/json", "application/xml", "text/plain"}
	valuePool  = []string{"1", "42", "abc", "a1", "x.y", "A", "AB", "a.f", "a.txt", "7:go", "q", "a", "b", "users", "12", "AB1", "é", "a b", "{x}", "a:undo", "zz-x", "%41", ".", "..", "ago", "1:xgo", "undo", "a-c", "b-d", "a-"}
	acceptPool = []string{"", "", "*/*", "application/json", "application/xml", "text/plain", "application/json;q=0.5, application/xml",
		"text/*", "application/*", "application/json;q=0", " application/xml ", "text/html, */*;q=0.1", "text/html", "application/json , text/html",
		"application/xml;q=0.1,application/json", "garbage", "*/* ; q=0.8"}
	ctPool = []string{"", "", "application/json", "application/xml", "application/json; charset=utf-8", "text/plain", "application/octet-stream", "APPLICATION/JSON"}
)

// values a plain variable is given in matching requests: the first twelve of valuePool, and text that LOOKS escaped
// once the server has decoded the request line (sent as %2541, %252F, ...): it must be bound as it stands
var matchValues = append(append([]string{}, valuePool[:12]...), "%41", "100%41", "a%2Fb", "50%25off", "a+b", "%")

type tokKind int

const (
	kLit tokKind = iota
	kVar
	kRe
	kSuf
	kTail
	kVerbLit
	kVerbVar
)

func genTok(r *rand.Rand, k tokKind, name string) string {
	switch k {
	case kLit:
		return pick(r, litPool)
	case kVar:
		return "{" + name + "}"
	case kRe:
		if r.Intn(3) == 0 {
			return "{id:[0-9]+}" // the byte-identical token in several routes, at varying positions
		}
		return "{" + name + ":" + pick(r, rePool) + "}"
	case kSuf:
		return "{" + name + "}" + pick(r, sufPool)
	case kTail:
		return "{" + name + ":*}"
	case kVerbLit:
		return pick(r, litPool) + pick(r, verbPool)
	case kVerbVar:
		return "{" + name + "}" + pick(r, verbPool)
	}
	return "a"
}

// weights per profile: lit, var, re, suf
func genPathToks(r *rand.Rand, n int, profile string, namePrefix string, allowEnd bool) []string {
	toks := []string{}
	for i := 0; i < n; i++ {
		name := fmt.Sprintf("%s%d", namePrefix, i+1)
		x := r.Intn(100)
		var k tokKind
		switch profile {
		case "common", "allow":
			if x < 55 {
				k = kLit
			} else {
				k = kVar
			}
		default:
			switch {
			case x < 40:
				k = kLit
			case x < 65:
				k = kVar
			case x < 82:
				k = kRe
			case x < 90:
				k = kSuf
			default:
				k = kLit
			}
			if allowEnd && i == n-1 {
				y := r.Intn(100)
				if y < 10 {
					k = kTail
				} else if y < 16 {
					k = kVerbLit
				} else if y < 24 {
					k = kVerbVar
				}
			}
		}
		tok := genTok(r, k, name)
		for _, prev := range toks {
			if prev == tok && strings.Contains(tok, "{") {
				tok = "{" + name + "}"
			}
		}
		toks = append(toks, tok)
	}
	return toks
}

func randomRoot(r *rand.Rand, profile string, i int) string {
	switch profile {
	case "common", "allow":
		opts := []string{"/", "/a", "/a/b", "/b", "/ab", "/a/b/ab", "/users", "/a b", "/x,y"}
		return opts[r.Intn(len(opts))]
	}
	x := r.Intn(100)
	switch {
	case x < 15:
		return "/"
	case x < 55:
		n := 1 + r.Intn(2)
		toks := []string{}
		for j := 0; j < n; j++ {
			toks = append(toks, pick(r, litPool[:5]))
		}
		if (profile == "mixed" || profile == "slash") && r.Intn(8) == 0 {
			return "/" + strings.Join(toks, "/") + "/" // a root path written with a trailing slash
		}
		return "/" + strings.Join(toks, "/")
	case x < 70:
		return "/" + pick(r, litPool[:3]) + fmt.Sprintf("/{w%d}", i)
	case x < 80:
		return fmt.Sprintf("/{w%d}", i)
	case x < 88:
		return fmt.Sprintf("/{w%d:%s}", i, pick(r, rePool))
	case x < 92:
		if profile == "slash" {
			return fmt.Sprintf("/{w%d}", i)
		}
		return fmt.Sprintf("/{w%d}", i) + pick(r, sufPool) // {v}suffix in the root path (CurlyRouter only)
	default:
		return fmt.Sprintf("/{w%d}/", i) + pick(r, litPool[:3])
	}
}

func joinRoutePath(r *rand.Rand, toks []string, profile string) string {
	if len(toks) == 0 {
		if r.Intn(2) == 0 {
			return ""
		}
		return "/"
	}
	p := "/" + strings.Join(toks, "/")
	last := toks[len(toks)-1]
	if k := strings.LastIndex(last, ":"); k > 0 && isAlpha(last[k+1:]) {
		// a custom verb is only recognised at the very end of the route path
		return p
	}
	if profile == "slash" || r.Intn(10) == 0 {
		switch r.Intn(4) {
		case 0:
			p = strings.TrimPrefix(p, "/")
		case 1:
			p += "/"
		case 2:
			p = strings.TrimPrefix(p, "/") + "/"
		}
	}
	return p
}

func subsetMimes(r *rand.Rand, pEmpty int) []string {
	if r.Intn(100) < pEmpty {
		return []string{}
	}
	out := []string{}
	for _, m := range mimePool {
		if r.Intn(2) == 0 {
			out = append(out, m)
		}
	}
	if len(out) == 0 {
		out = append(out, mimePool[r.Intn(len(mimePool))])
	}
	if r.Intn(25) == 0 {
		out = append(out, "*/*")
	}
	return out
}

func fullTokens(root, p string) []string {
	full := strings.TrimRight(root, "/") + "/" + strings.TrimLeft(p, "/")
	if full == "/" {
		return []string{}
	}
	return strings.Split(strings.Trim(full, "/"), "/")
}

func randomTable(r *rand.Rand, profile string, nreq int) tableCase {
	t := tableCase{}
	nws := 1 + r.Intn(3)
	if profile == "headers" {
		nws = 1
	}
	seenRoot := map[string]bool{}
	twins := [][2]int{} // routes that are the literal twin of another route's variable token: asked for exactly
	for i := 0; i < nws; i++ {
		root := randomRoot(r, profile, i)
		if seenRoot[root] {
			continue
		}
		seenRoot[root] = true
		s := serviceSpec{Root: root, Routes: []routeSpec{}, WProd: []string{}, WCons: []string{}}
		if profile != "allow" && r.Intn(4) == 0 {
			s.WProd = subsetMimes(r, 30)
		}
		if profile != "allow" && r.Intn(4) == 0 {
			s.WCons = subsetMimes(r, 30)
		}
		nr := 1 + r.Intn(5)
		var base [][]string
		for j := 0; j < nr; j++ {
			var toks []string
			sameMethodAs := -1
			if profile == "headers" {
				toks = [][]string{{"a"}, {"{x1}"}, {"a", "{x2}"}}[r.Intn(3)]
			} else if len(base) > 0 && r.Intn(100) < 45 {
				// overlap an earlier template: change one token's kind (dominance pairs)
				si := r.Intn(len(base))
				src := base[si]
				toks = append([]string{}, src...)
				if len(toks) > 0 {
					k := r.Intn(len(toks))
					toks[k] = genPathToks(r, 1, profile, fmt.Sprintf("y%d_", j), k == len(toks)-1)[0]
					if strings.Contains(src[k], "{") && !strings.Contains(src[k], ":*}") && r.Intn(100) < 40 {
						// a literal the variable token of the other template matches (prefix, suffix and verb included),
						// on the same method: both routes are eligible for that URL, the literal one is more specific
						if vs := valueFor(r, src[k]); len(vs) == 1 && vs[0] != "" && !strings.ContainsAny(vs[0], "{}%+ ") {
							toks[k] = vs[0]
							sameMethodAs = si
						}
					}
				}
			} else {
				toks = genPathToks(r, r.Intn(4), profile, fmt.Sprintf("x%d_", j), true)
			}
			// variable names are distinct within a template
			seenTok := map[string]bool{}
			for k, tk := range toks {
				if strings.Contains(tk, "{") && seenTok[tk] {
					toks[k] = fmt.Sprintf("{d%d_%d}", j, k)
				}
				seenTok[tk] = true
			}
			base = append(base, toks)
			rs := routeSpec{M: methodPool[r.Intn(len(methodPool))], P: joinRoutePath(r, toks, profile),
				Cons: []string{}, Prod: []string{}, Conds: []int{}, Noct: []string{}}
			if profile == "common" && r.Intn(2) == 0 {
				rs.M = []string{"GET", "POST"}[r.Intn(2)]
			}
			if sameMethodAs >= 0 && sameMethodAs < len(s.Routes) {
				rs.M = s.Routes[sameMethodAs].M
				twins = append(twins, [2]int{len(t.Services), len(s.Routes)})
			}
			if r.Intn(14) == 0 {
				rs.M = pick(r, []string{"TRACE", "PROPFIND", "REPORT", "UNLOCK", "LOCK", "PROPPATCH"}) // methods outside the usual seven; some contain another
			}
			if profile == "allow" && r.Intn(8) == 0 {
				rs.M = "OPTIONS" // a table with its own OPTIONS route
			}
			if profile == "headers" && len(s.Routes) > 0 && r.Intn(2) == 0 {
				// the same method and template as an earlier route: only Consumes / Produces tell them apart
				prev := s.Routes[r.Intn(len(s.Routes))]
				rs.M, rs.P = prev.M, prev.P
			}
			hp := 70
			if profile == "headers" {
				hp = 20
			}
			if profile == "allow" && r.Intn(3) == 0 {
				rs.Cons = subsetMimes(r, 0) // Consumes does not change which methods are routable
			}
			if profile != "allow" {
				rs.Cons = subsetMimes(r, hp)
				rs.Prod = subsetMimes(r, hp)
				if r.Intn(100) < 15 {
					rs.Conds = append(rs.Conds, 1+r.Intn(2))
				}
				if r.Intn(100) < 8 {
					rs.Noct = []string{pick(r, methodPool)}
				}
			}
			s.Routes = append(s.Routes, rs)
		}
		t.Services = append(t.Services, s)
	}
	for i := 0; i < nreq; i++ {
		t.Reqs = append(t.Reqs, randomRequest(r, t, profile))
	}
	if nreq > 0 {
		for i := range twins {
			forcedRoute = &twins[i]
			t.Reqs = append(t.Reqs, randomRequest(r, t, profile), randomRequest(r, t, profile))
			forcedRoute = nil
		}
	}
	if profile == "mixed" || profile == "headers" {
		for i := 0; i < 2; i++ {
			t.Reqs = append(t.Reqs, opaqueRequest(r))
		}
	}
	return t
}

func valueFor(r *rand.Rand, tok string) []string {
	// returns the URL segment(s) for one template token
	verb := ""
	if k := strings.LastIndex(tok, ":"); k > 0 && k < len(tok)-1 && isAlpha(tok[k+1:]) {
		verb = tok[k:]
		tok = tok[:k]
	}
	ob := strings.Index(tok, "{")
	if ob < 0 {
		return []string{tok + verb}
	}
	cb := strings.LastIndex(tok, "}")
	inner := tok[ob+1 : cb]
	pre, suf := tok[:ob], tok[cb+1:]
	val := pick(r, matchValues)
	if c := strings.Index(inner, ":"); c >= 0 {
		re := inner[c+1:]
		switch re {
		case "*":
			n := 1 + r.Intn(3)
			if r.Intn(12) == 0 {
				n = 26 + r.Intn(10) // deep paths (limits that count separators)
			}
			out := []string{}
			for i := 0; i < n; i++ {
				out = append(out, pick(r, matchValues))
			}
			return out
		case "[0-9]+":
			val = pick(r, []string{"1", "42", "007"})
		case "[a-z]+":
			val = pick(r, []string{"a", "abc", "q"})
		case "[a-z0-9]+":
			val = pick(r, []string{"a1", "9", "abc"})
		case "[A-Z][A-Z]":
			val = pick(r, []string{"AB", "NL"})
		case "[0-9]{2}":
			val = pick(r, []string{"12", "00"})
		case "(cats|dogs)":
			val = pick(r, []string{"cats", "dogs"})
		case "(a|b)-(c|d)":
			val = pick(r, []string{"a-c", "b-d"})
		}
	}
	return []string{pre + val + suf + verb}
}

func isAlpha(s string) bool {
	for _, c := range s {
		if !((c >= 'a' && c <= 'z') || (c >= 'A' && c <= 'Z')) {
			return false
		}
	}
	return len(s) > 0
}

func mutateSegs(r *rand.Rand, segs []string) []string {
	segs = append([]string{}, segs...)
	if len(segs) == 0 {
		return []string{pick(r, valuePool)}
	}
	k := r.Intn(len(segs))
	switch r.Intn(14) {
	case 12: // drop the last colon (same letters, no verb separator)
		if i := strings.LastIndex(segs[k], ":"); i >= 0 {
			segs[k] = segs[k][:i] + segs[k][i+1:]
		}
	case 13: // lengthen the verb
		if i := strings.LastIndex(segs[k], ":"); i >= 0 {
			segs[k] = segs[k][:i+1] + "x" + segs[k][i+1:]
		}
	case 0: // drop
		segs = append(segs[:k], segs[k+1:]...)
	case 1: // insert
		segs = append(segs[:k], append([]string{pick(r, valuePool)}, segs[k:]...)...)
	case 2: // duplicate
		segs = append(segs[:k], append([]string{segs[k]}, segs[k:]...)...)
	case 3: // change one character
		if len(segs[k]) > 0 {
			b := []byte(segs[k])
			b[r.Intn(len(b))] = "abz19.:AZ-"[r.Intn(10)]
			segs[k] = string(b)
		}
	case 4: // case
		if segs[k] == strings.ToUpper(segs[k]) {
			segs[k] = strings.ToLower(segs[k])
		} else {
			segs[k] = strings.ToUpper(segs[k])
		}
	case 5: // strip what follows the last '.', '-' or ':'
		if i := strings.LastIndexAny(segs[k], ".-:"); i >= 0 {
			segs[k] = segs[k][:i]
		}
	case 6: // shorten
		if len(segs[k]) > 0 {
			segs[k] = segs[k][:r.Intn(len(segs[k]))]
		}
	case 7: // alter verb / add verb
		segs[k] += pick(r, []string{":go", ":undo", ":x"})
	case 8: // replace by pool value
		segs[k] = pick(r, valuePool)
	case 9: // empty segment
		segs[k] = ""
	case 10: // append a segment
		segs = append(segs, pick(r, valuePool))
	case 11: // keep only the last character
		if len(segs[k]) > 1 {
			segs[k] = segs[k][len(segs[k])-1:]
		}
	}
	return segs
}

// forcedRoute: when set, randomRequest derives an unmutated request on that route's method from (service, route)
var forcedRoute *[2]int

func randomRequest(r *rand.Rand, t tableCase, profile string) reqSpec {
	rq := reqSpec{Conds: []int{}}
	// path
	var segs []string
	var fromRoute *routeSpec
	if forcedRoute != nil {
		s := t.Services[forcedRoute[0]]
		rt := s.Routes[forcedRoute[1]]
		fromRoute = &rt
		for _, tok := range fullTokens(s.Root, rt.P) {
			segs = append(segs, valueFor(r, tok)...)
		}
	} else if len(t.Services) > 0 && r.Intn(100) < 85 {
		s := t.Services[r.Intn(len(t.Services))]
		if len(s.Routes) > 0 {
			rt := s.Routes[r.Intn(len(s.Routes))]
			fromRoute = &rt
			for _, tok := range fullTokens(s.Root, rt.P) {
				segs = append(segs, valueFor(r, tok)...)
			}
		}
	} else {
		n := r.Intn(4)
		for i := 0; i < n; i++ {
			segs = append(segs, pick(r, append(valuePool, litPool...)))
		}
	}
	mut := 45
	if profile == "common" || profile == "allow" {
		mut = 35
	}
	if forcedRoute != nil {
		mut = 0
	}
	if r.Intn(100) < mut {
		segs = mutateSegs(r, segs)
		if r.Intn(4) == 0 {
			segs = mutateSegs(r, segs)
		}
	}
	rq.Path = "/" + strings.Join(segs, "/")
	switch x := r.Intn(100); {
	case x < 12 && len(segs) > 0:
		rq.Path += "/"
	case x < 15:
		rq.Path = "/" + rq.Path
	case x < 17 && len(segs) > 0:
		rq.Path += "//"
	}
	// method
	if fromRoute != nil && (forcedRoute != nil || r.Intn(100) < 70) {
		rq.M = fromRoute.M
	} else {
		rq.M = pick(r, append(methodPool, "HEAD", "OPTIONS"))
	}
	if profile == "allow" {
		return rq
	}
	// headers
	if fromRoute != nil && len(fromRoute.Cons) > 0 && r.Intn(100) < 60 {
		rq.CT = pick(r, fromRoute.Cons)
		if r.Intn(5) == 0 {
			rq.CT += "; charset=utf-8"
		}
	} else {
		rq.CT = pick(r, ctPool)
	}
	if r.Intn(12) == 0 {
		// a wildcard is a media RANGE: it has no meaning in a Content-Type
		rq.CT = pick(r, []string{"*/*", "*/*; charset=utf-8", "text/plain, */*;q=0.1"})
	}
	if fromRoute != nil && len(fromRoute.Prod) > 0 && r.Intn(100) < 50 {
		rq.Acc = pick(r, fromRoute.Prod)
	} else {
		rq.Acc = pick(r, acceptPool)
	}
	if fromRoute != nil && len(fromRoute.Prod) > 0 && r.Intn(10) == 0 {
		// a media type whose NAME contains one the route produces
		pr := pick(r, fromRoute.Prod)
		rq.Acc = pick(r, []string{pr + "-dtd", pr + "-seq;q=0.8, text/html", "text/" + pr, "x" + pr, pr + "x, image/png"})
	}
	switch x := r.Intn(100); {
	case x < 45:
		rq.Clen, rq.Clh = 0, ""
	case x < 55:
		rq.Clen, rq.Clh = 0, "0"
	default:
		rq.Clen = 1 + r.Intn(5)
		rq.Clh = fmt.Sprint(rq.Clen)
	}
	if rq.M == "GET" || rq.M == "HEAD" || rq.M == "DELETE" || rq.M == "OPTIONS" {
		if r.Intn(100) < 70 {
			rq.Clen, rq.Clh = 0, ""
		}
	}
	if n := strings.Count(rq.Path, "/"); n >= 2 && r.Intn(12) == 0 {
		rq.EscSlash = 2 + r.Intn(n-1) // one of the inner slashes travels as %2F
	}
	for k := 1; k <= 2; k++ {
		if r.Intn(100) < 60 {
			rq.Conds = append(rq.Conds, k)
		} else if fromRoute != nil && len(fromRoute.Conds) > 0 && r.Intn(100) < 20 {
			// the condition fails with a panic instead of answering false
			rq.CPanic = append(rq.CPanic, k)
		}
	}
	return rq
}

// requests outside the specification's string projection: arbitrary bytes (non-UTF-8), very long
// paths, only slashes, braces and colons everywhere; arbitrary (header-legal) Accept / Content-Type
func opaqueRequest(r *rand.Rand) reqSpec {
	var raw []byte
	switch r.Intn(6) {
	case 0:
		raw = bytes.Repeat([]byte("/"), 1+r.Intn(40))
	case 1:
		raw = []byte("/" + strings.Repeat("a/", 20000+r.Intn(12000))) // ~ 64 KiB
	case 2:
		n := 1 + r.Intn(60)
		raw = make([]byte, n)
		r.Read(raw)
		raw = append([]byte("/"), raw...)
	case 3:
		raw = []byte("/" + strings.Repeat(pick(r, []string{"{", "}", ":", "*", "{x:*}", "%", ".", ".."}), 1+r.Intn(30)))
	case 4:
		raw = []byte("/" + strings.Repeat("\xff\xfe/", 1+r.Intn(10)) + "{\x00}")
	default:
		raw = []byte("/a/" + strings.Repeat("x", 70000))
	}
	hv := func() string {
		n := r.Intn(40)
		b := make([]byte, n)
		for i := range b {
			b[i] = byte(0x21 + r.Intn(0x5e)) // visible ASCII
		}
		return string(b)
	}
	rq := reqSpec{M: pick(r, append(methodPool, "HEAD", "OPTIONS", "TRACE", "BREW")), Opaque: true, Raw: string(raw), Conds: []int{},
		CT: pick(r, []string{"", hv(), "application/json"}), Acc: pick(r, []string{"", hv(), ";;;,,,q=", "*/*;q=x"})}
	esc := escapePath(string(raw))
	if len(esc) > 120 {
		esc = esc[:60] + fmt.Sprintf("...(%d bytes)...", len(raw)) + esc[len(esc)-40:]
	}
	rq.Path = esc
	return rq
}

package main

// C08 / C09 driver: one real CrossOriginResourceSharing filter instance per configuration,
// a sequence of requests, and a twin container without the filter.

import (
	"fmt"
	"math/rand"
	"net/http"
	"net/http/httptest"
	"runtime"
	"sort"
	"strings"
	"sync"

	restful "github.com/emicklei/go-restful/v3"
)

type corsCfg struct {
	Domains []string `json:"domains"`
	Pred    string   `json:"pred"`
	Methods []string `json:"methods"`
	Headers []string `json:"headers"`
	Expose  []string `json:"expose"`
	Cookies bool     `json:"cookies"`
	MaxAge  int      `json:"maxAge"`
}

type corsReq struct {
	M      string `json:"m"`
	Origin string `json:"origin"`
	Acrm   string `json:"acrm"`
	Acrh   string `json:"acrh"`
	// Acrh2 != "": a second Access-Control-Request-Headers field line
	Acrh2 string `json:"acrh2"`
	URL   string `json:"url"`
}

type corsPlan struct {
	Cfgs    []corsCfg `json:"cfgs"`
	Pool    []corsReq `json:"pool"`
	Random  int       `json:"random"`  // random configurations
	ReqsPer int       `json:"reqsPer"` // random requests per random configuration
	Shuffle bool      `json:"shuffle"` // also run the pool in a seeded shuffled order
	Stacked bool      `json:"stacked"` // run the pool on the two-filter container as well
	Conc    int       `json:"conc"`    // > 0: concurrent requests (that many per goroutine) to two WebServices with CORS filters of their own
}

type corsCounters struct{ ran, later int }

// world: what changes behind the container's back during a sequence
type corsWorld struct {
	u1, u2 *restful.WebService
	h      restful.RouteFunction
	grown  bool // /u1 also serves PUT
	shrunk bool // /u2 no longer serves PUT
	// predicate "toggle": the configured AllowedDomainFunc reads this ("suffix" or "never"); the application
	// changes its mind about who is allowed while the same filter instance keeps serving
	predMode string
}

func (w *corsWorld) shrink() {
	if !w.shrunk {
		w.u2.RemoveRoute("/u2/", "PUT")
		w.u2.RemoveRoute("/u2", "PUT")
		w.shrunk = true
	}
}

func (w *corsWorld) grow() {
	if !w.grown {
		w.u1.Route(w.u1.PUT("").To(w.h))
		w.grown = true
	}
}

// togglePred: the world whose predMode the "toggle" predicate of the container under test reads
var togglePred = &corsWorld{predMode: "suffix"}

func corsContainer(cfg *corsCfg, cnt *corsCounters) *restful.Container {
	c, _ := corsContainerW(cfg, cnt, nil)
	return c
}

// second: an additional, restrictive CORS filter on the WebServices (cookies, expose X-B, only http://b.org)
func corsContainerW(cfg *corsCfg, cnt *corsCounters, second *restful.CrossOriginResourceSharing) (*restful.Container, *corsWorld) {
	c := restful.NewContainer()
	// a plain handler behind the container's filters, registered while the container has no filter yet (/plain/x
	// is reached through ServeHTTP only)
	c.HandleWithFilter("/plain/", http.HandlerFunc(func(w http.ResponseWriter, r *http.Request) {
		cnt.ran++
		w.Header().Add("X-Handler", r.Method)
		w.Write([]byte("ok:" + r.URL.Path))
	}))
	if cfg != nil {
		cors := restful.CrossOriginResourceSharing{
			ExposeHeaders: cfg.Expose, AllowedHeaders: cfg.Headers, AllowedDomains: cfg.Domains,
			AllowedMethods: cfg.Methods, MaxAge: cfg.MaxAge, CookiesAllowed: cfg.Cookies, Container: c}
		switch cfg.Pred {
		case "suffix":
			cors.AllowedDomainFunc = func(o string) bool { return strings.HasSuffix(strings.ToLower(o), ".example.com") }
		case "never":
			cors.AllowedDomainFunc = func(string) bool { return false }
		case "always":
			cors.AllowedDomainFunc = func(string) bool { return true }
		case "exactlc":
			// case-sensitive: accepts one spelling only (generated next to a non-empty list: there the filter asks
			// about the origin as it was sent)
			cors.AllowedDomainFunc = func(o string) bool { return o == "https://shop.example.com" }
		case "toggle":
			cors.AllowedDomainFunc = func(o string) bool {
				return togglePred.predMode == "suffix" && strings.HasSuffix(strings.ToLower(o), ".example.com")
			}
		}
		c.Filter(cors.Filter)
	}
	later := func(req *restful.Request, resp *restful.Response, chain *restful.FilterChain) {
		cnt.later++
		chain.ProcessFilter(req, resp)
	}
	c.Filter(later)
	h := func(req *restful.Request, resp *restful.Response) {
		cnt.ran++
		resp.AddHeader("X-Handler", req.Request.Method)
		resp.Write([]byte("ok:" + req.Request.URL.Path))
	}
	u1 := new(restful.WebService).Path("/u1")
	u1.SetDynamicRoutes(true)
	u1.Route(u1.GET("").To(h))
	u2 := new(restful.WebService).Path("/u2")
	u2.SetDynamicRoutes(true)
	u2.Route(u2.GET("").To(h))
	u2.Route(u2.PUT("").To(h))
	// /u1 has a generic DELETE route two levels down; the more specific service /u1/users owns those URLs and has no DELETE
	u1.Route(u1.DELETE("/{kind}/{id}").To(h))
	u3 := new(restful.WebService).Path("/u1/users")
	u3.Route(u3.GET("/{id}").To(h))
	u3.Route(u3.PUT("/{id}").To(h))
	if second != nil {
		u1.Filter(second.Filter)
		u2.Filter(second.Filter)
	}
	c.Add(u1).Add(u2).Add(u3)
	return c, &corsWorld{u1: u1, u2: u2, h: h}
}

func corsRoutable(url string, grown, shrunk bool) []string {
	switch url {
	case "/u1":
		if grown {
			return []string{"GET", "PUT"}
		}
		return []string{"GET"}
	case "/u2":
		if shrunk {
			return []string{"GET"}
		}
		return []string{"GET", "PUT"}
	case "/u1/users/5":
		return []string{"GET", "PUT"}
	case "/u1/things/5":
		return []string{"DELETE"}
	}
	return []string{}
}

type corsProj struct {
	St    int             `json:"st"`
	Ran   int             `json:"ran"`
	Later int             `json:"later"`
	Body  string          `json:"body"`
	Hdr   [][]interface{} `json:"hdr"`
}

func corsObserve(c *restful.Container, cnt *corsCounters, rq corsReq) (proj corsProj, ac [][]interface{}, panicked bool) {
	*cnt = corsCounters{}
	hr, err := buildRequest(rq.M, rq.URL, [][2]string{{"Origin", rq.Origin}, {"Access-Control-Request-Method", rq.Acrm},
		{"Access-Control-Request-Headers", rq.Acrh}, {"Access-Control-Request-Headers", rq.Acrh2}}, nil, false)
	ac = [][]interface{}{}
	if err != nil {
		return corsProj{St: -2, Hdr: [][]interface{}{}}, ac, false
	}
	rec := httptest.NewRecorder()
	func() {
		defer func() {
			if recover() != nil {
				panicked = true
			}
		}()
		if strings.HasPrefix(rq.URL, "/plain/") {
			c.ServeHTTP(rec, hr)
		} else {
			c.Dispatch(rec, hr)
		}
	}()
	proj = corsProj{St: rec.Code, Ran: cnt.ran, Later: cnt.later, Body: rec.Body.String(), Hdr: [][]interface{}{}}
	keys := []string{}
	wh := wireHeader(rec)
	for k := range wh {
		keys = append(keys, k)
	}
	sort.Strings(keys)
	for _, k := range keys {
		vals := wh[k]
		if strings.HasPrefix(k, "Access-Control-") {
			ac = append(ac, []interface{}{k, vals})
		} else {
			proj.Hdr = append(proj.Hdr, []interface{}{k, vals})
		}
	}
	return
}

func validHeaderValue(s string) bool {
	for i := 0; i < len(s); i++ {
		if s[i] < 0x20 || s[i] == 0x7f {
			return false
		}
	}
	// SP / HTAB around a value are stripped by the HTTP parser: what is logged would not be what is sent
	return strings.Trim(s, " \t") == s
}

func runCorsCfg(tw *traceWriter, cfg corsCfg, reqs []corsReq) {
	cfg.Domains, cfg.Methods, cfg.Headers, cfg.Expose = nonNil(cfg.Domains), nonNil(cfg.Methods), nonNil(cfg.Headers), nonNil(cfg.Expose)
	toggling := cfg.Pred == "toggle"
	logged := cfg
	if toggling {
		// the specification sees the predicate that is in force: "suffix" first, "never" after the switch
		togglePred.predMode = "suffix"
		logged.Pred = "suffix"
		shop := corsReq{M: "GET", Origin: "https://shop.example.com", URL: "/u1"}
		k := len(reqs) / 3
		given := false
		for _, rq := range reqs {
			given = given || rq.M == "TOGGLE" // a replayed sequence carries its own switch
		}
		if !given {
			// the same origin right before and right after the switch
			reqs = append(append(append([]corsReq{}, reqs[:k]...), shop, corsReq{M: "TOGGLE"}, shop,
				corsReq{M: "OPTIONS", Origin: shop.Origin, Acrm: "GET", URL: "/u1"}), reqs[k:]...)
		}
	}
	tw.emit(map[string]interface{}{"e": "cfg", "cfg": logged, "toggle": toggling})
	var cnt, tcnt corsCounters
	c, world := corsContainerW(&cfg, &cnt, nil)
	twin, tworld := corsContainerW(nil, &tcnt, nil)
	for i, rq := range reqs {
		if rq.M == "TOGGLE" {
			togglePred.predMode = "never"
			logged.Pred = "never"
			tw.emit(map[string]interface{}{"e": "cfg", "cfg": logged, "toggled": true})
			continue
		}
		if i == len(reqs)/2 {
			// a route is added to an already registered WebService: /u1 serves PUT from now on
			world.grow()
			tworld.grow()
		}
		if i == 2*len(reqs)/3 {
			// ... and a route is removed: /u2 no longer serves PUT
			world.shrink()
			tworld.shrink()
		}
		if !validHeaderValue(rq.Origin) || !validHeaderValue(rq.Acrh) || !validHeaderValue(rq.Acrh2) || !validHeaderValue(rq.Acrm) {
			continue
		}
		proj, ac, panicked := corsObserve(c, &cnt, rq)
		tproj, _, _ := corsObserve(twin, &tcnt, rq)
		if proj.St == -2 {
			continue
		}
		tw.emit(map[string]interface{}{"e": "creq", "req": rq, "routable": corsRoutable(rq.URL, world.grown, world.shrunk), "ac": ac,
			"ran": proj.Ran, "later": proj.Later, "proj": proj, "twin": tproj, "panic": panicked})
	}
}

// two CORS filters in one chain: the configured one on the container and a restrictive one (only
// http://b.org, cookies, expose X-B) on the WebServices. What only the second filter grants
// (credentials - when the first has none - and X-B) may only appear for origins the second allows.
func runCorsStacked(tw *traceWriter, cfg corsCfg, reqs []corsReq) {
	cfg.Domains, cfg.Methods, cfg.Headers, cfg.Expose = nonNil(cfg.Domains), nonNil(cfg.Methods), nonNil(cfg.Headers), nonNil(cfg.Expose)
	cfg.Cookies = false
	togglePred.predMode = "never"
	if cfg.Pred == "toggle" {
		cfg.Pred = "never"
	}
	var cnt corsCounters
	second := &restful.CrossOriginResourceSharing{AllowedDomains: []string{"http://b.org"}, CookiesAllowed: true, ExposeHeaders: []string{"X-B"}}
	c, _ := corsContainerW(&cfg, &cnt, second)
	second.Container = c
	for _, rq := range reqs {
		if !validHeaderValue(rq.Origin) || !validHeaderValue(rq.Acrh) || !validHeaderValue(rq.Acrm) || rq.M == "OPTIONS" {
			continue
		}
		_, ac, panicked := corsObserve(c, &cnt, rq)
		cred, xb := false, false
		for _, h := range ac {
			if h[0].(string) == "Access-Control-Allow-Credentials" {
				cred = true
			}
			if h[0].(string) == "Access-Control-Expose-Headers" {
				for _, v := range h[1].([]string) {
					if strings.Contains(v, "X-B") {
						xb = true
					}
				}
			}
		}
		tw.emit(map[string]interface{}{"e": "cstack", "origin": rq.Origin, "second": []string{"http://b.org"}, "cred": cred, "xb": xb, "panic": panicked})
	}
}

// two WebServices with CORS filters of their own (different allowed origins) behind three container
// filters, requests to both at the same time: a grant on a response needs an origin the filter of
// THAT WebService allows
func runCorsConc(tw *traceWriter, rounds int) {
	c := restful.NewContainer()
	for i := 0; i < 3; i++ {
		c.Filter(func(req *restful.Request, resp *restful.Response, chain *restful.FilterChain) {
			runtime.Gosched()
			chain.ProcessFilter(req, resp)
		})
	}
	allowed := map[string]string{"/ca": "http://a.example", "/cb": "http://b.example"}
	for path, dom := range allowed {
		f := restful.CrossOriginResourceSharing{AllowedDomains: []string{dom}, CookiesAllowed: true, Container: c}
		ws := new(restful.WebService).Path(path)
		ws.Filter(f.Filter)
		ws.Route(ws.GET("").To(func(req *restful.Request, resp *restful.Response) { resp.Write([]byte("ok")) }))
		c.Add(ws)
	}
	type obs struct {
		path, origin string
		grant        bool
	}
	const G = 8
	res := make([][]obs, G)
	var wg sync.WaitGroup
	start := make(chan struct{})
	for g := 0; g < G; g++ {
		wg.Add(1)
		go func(g int) {
			defer wg.Done()
			<-start
			for k := 0; k < rounds; k++ {
				path := []string{"/ca", "/cb"}[(g+k)%2]
				origin := []string{"http://a.example", "http://b.example"}[(g/2+k/2)%2]
				hr, _ := buildRequest("GET", path, [][2]string{{"Origin", origin}}, nil, false)
				rec := httptest.NewRecorder()
				safely(func() { c.Dispatch(rec, hr) })
				h := wireHeader(rec)
				res[g] = append(res[g], obs{path, origin, h.Get("Access-Control-Allow-Origin") != "" || h.Get("Access-Control-Allow-Credentials") != ""})
			}
		}(g)
	}
	close(start)
	wg.Wait()
	tw.emit(map[string]interface{}{"e": "cfg", "cfg": corsCfg{Domains: []string{}, Methods: []string{}, Headers: []string{}, Expose: []string{}, Pred: "none"}})
	for g := 0; g < G; g++ {
		for _, o := range res[g] {
			tw.emit(map[string]interface{}{"e": "cstack", "origin": o.origin, "second": []string{allowed[o.path]}, "cred": o.grant, "xb": false, "panic": false, "conc": true})
		}
	}
}

func mutateOrigin(r *rand.Rand, base string) string {
	switch r.Intn(15) {
	case 13: // white space the HTTP parser does not strip (only SP and HTAB are optional white space)
		return pick(r, []string{"\u00a0", "\u2003", "\u0085"}) + base
	case 14:
		return base + pick(r, []string{"\u00a0", "\u2003", "\u0085"})
	case 0:
		return strings.ToUpper(base)
	case 1:
		return base + ".evil.io"
	case 2:
		return "evil" + base
	case 3:
		if len(base) > 1 {
			return base[:len(base)-1]
		}
	case 4:
		if len(base) > 1 {
			return base[1:]
		}
	case 5:
		return base + "/"
	case 6:
		return base + ":8080"
	case 7:
		return strings.Replace(base, "http://", "https://", 1)
	case 8:
		b := []byte(base)
		if len(b) > 0 {
			i := r.Intn(len(b))
			if b[i] >= 'a' && b[i] <= 'z' {
				b[i] -= 32
			}
		}
		return string(b)
	case 9:
		return "null"
	case 10:
		return base + "x"
	case 11: // flip bit 5 of one byte (the ASCII "case bit"), keeping the value printable
		b := []byte(base)
		for try := 0; try < 8 && len(b) > 0; try++ {
			i := r.Intn(len(b))
			x := b[i] ^ 0x20
			if x > 0x20 && x < 0x7f {
				b[i] = x
				return string(b)
			}
		}
	}
	return base
}

func runCors(planPath, outPath string, seed int64) {
	var p corsPlan
	readJSONFile(planPath, &p)
	r := rand.New(rand.NewSource(seed))
	restful.SetLogger(discardLogger{})
	restful.EnableTracing(false)
	tw := newTraceWriter(outPath)
	defer tw.close()
	if p.Conc > 0 {
		runCorsConc(tw, p.Conc)
	}
	for _, cfg := range p.Cfgs {
		if p.Stacked {
			tw.emit(map[string]interface{}{"e": "cfg", "cfg": cfg})
			runCorsStacked(tw, cfg, p.Pool)
			continue
		}
		runCorsCfg(tw, cfg, p.Pool)
		if p.Shuffle {
			sh := append([]corsReq{}, p.Pool...)
			r.Shuffle(len(sh), func(i, j int) { sh[i], sh[j] = sh[j], sh[i] })
			runCorsCfg(tw, cfg, sh)
		}
	}
	domPool := []string{"", " ", "http://a.com", "https://A.com", "http://b.org", "a.com", "https://shop.example.com", "http://localhost:3000",
		"http://[::1]:8080", "https://user@host.test", "http://a^b.test"}
	hdrPool := []string{"X-A", "x-a", "X-B", "Content-Type", "Authorization", "X-C"}
	for i := 0; i < p.Random; i++ {
		cfg := corsCfg{Pred: pick(r, []string{"none", "none", "suffix", "never", "always", "toggle"}), Cookies: r.Intn(2) == 0}
		for _, d := range domPool {
			if r.Intn(4) == 0 {
				cfg.Domains = append(cfg.Domains, d)
			}
		}
		if r.Intn(8) == 0 {
			cfg.Domains = append(cfg.Domains, ".*")
		}
		exactPred := false
		if len(cfg.Domains) > 0 && r.Intn(4) == 0 {
			cfg.Pred, exactPred = "exactlc", true
		}
		switch r.Intn(3) {
		case 1:
			cfg.Methods = []string{"GET"}
		case 2:
			cfg.Methods = []string{"GET", "PUT", "DELETE"}
		}
		for _, h := range hdrPool {
			if r.Intn(3) == 0 {
				cfg.Headers = append(cfg.Headers, h)
			}
		}
		if r.Intn(6) == 0 {
			cfg.Headers = append(cfg.Headers, "*")
		}
		if r.Intn(2) == 0 {
			cfg.Expose = []string{"X-E", "X-F"}
		}
		if r.Intn(2) == 0 {
			cfg.MaxAge = 1 + r.Intn(3600)
		}
		reqs := []corsReq{}
		for j := 0; j < p.ReqsPer; j++ {
			rq := corsReq{M: pick(r, []string{"GET", "OPTIONS", "OPTIONS", "PUT", "POST"}), URL: pick(r, []string{"/u1", "/u2", "/u3", "/u1", "/u2", "/u1/users/5", "/u1/things/5", "/plain/x"})}
			base := pick(r, append(append([]string{}, domPool...), "https://x.example.com", "http://example.com"))
			if len(cfg.Domains) > 0 && r.Intn(2) == 0 {
				base = pick(r, cfg.Domains)
			}
			if exactPred && r.Intn(3) == 0 {
				base = pick(r, []string{"https://shop.example.com", "https://Shop.example.com", "HTTPS://SHOP.EXAMPLE.COM", "https://shop.Example.com"})
			}
			switch x := r.Intn(10); {
			case x < 1:
				rq.Origin = ""
			case x < 5:
				rq.Origin = base
			default:
				rq.Origin = mutateOrigin(r, base)
			}
			if r.Intn(3) > 0 {
				rq.Acrm = pick(r, []string{"GET", "PUT", "DELETE", "POST", "PATCH"})
				if r.Intn(8) == 0 {
					// method names are case-sensitive: "put" is not PUT
					rq.Acrm = pick(r, []string{strings.ToLower(rq.Acrm), rq.Acrm[:1] + strings.ToLower(rq.Acrm[1:])})
				}
			}
			nh := r.Intn(4)
			hs := []string{}
			for k := 0; k < nh; k++ {
				h := pick(r, hdrPool)
				if r.Intn(3) == 0 {
					h = strings.ToLower(h)
				}
				if r.Intn(5) == 0 && len(cfg.Headers) > 0 {
					// a fragment of an allowed header name, or an empty element
					a := pick(r, cfg.Headers)
					switch r.Intn(3) {
					case 0:
						h = a[:r.Intn(len(a)+1)]
					case 1:
						h = a[r.Intn(len(a)+1):]
					default:
						h = ""
					}
				}
				hs = append(hs, h)
			}
			rq.Acrh = strings.Join(hs, pick(r, []string{",", ", ", " , "}))
			if len(hs) > 0 && r.Intn(5) == 0 {
				// the list spread over two field lines: an allowed first line, anything in the second
				rq.Acrh = hs[0]
				rq.Acrh2 = strings.Join(append(hs[1:], pick(r, hdrPool)), ", ")
			}
			reqs = append(reqs, rq)
		}
		runCorsCfg(tw, cfg, reqs)
		if i%4 == 0 {
			tw.emit(map[string]interface{}{"e": "cfg", "cfg": cfg})
			runCorsStacked(tw, cfg, reqs)
		}
	}
	_ = fmt.Sprint
	_ = http.StatusOK
}

package main

// C17 probes: for every URL one request per method on a plain container and on a twin
// with the OPTIONS filter installed; the spec relates the Allow headers to the statuses.

import (
	"sort"
	"strings"

	restful "github.com/emicklei/go-restful/v3"
)

func emitOptionsProbes(tw *traceWriter, tid int, t tableCase, routers []string, universe []string) {
	// (a container filter that rewrites the URL - flavour 3 - sits in front of the OPTIONS filter, which would then be asked
	// about the rewritten URL: these probes use the pass-through filter instead)
	if filterFlavour == 3 {
		filterFlavour = 1
		defer func() { filterFlavour = 3 }()
	}
	if len(universe) == 0 {
		universe = []string{"GET", "POST", "PUT", "DELETE", "PATCH", "HEAD", "OPTIONS"}
	}
	// ... and every method a route of this table declares
	universe = append([]string{}, universe...)
	for _, s := range t.Services {
		for _, r := range s.Routes {
			known := false
			for _, u := range universe {
				known = known || u == r.M
			}
			if !known {
				universe = append(universe, r.M)
			}
		}
	}
	paths := []string{}
	seen := map[string]bool{}
	for _, rq := range t.Reqs {
		if !seen[rq.Path] {
			seen[rq.Path] = true
			paths = append(paths, rq.Path)
		}
	}
	sort.Strings(paths)
	for _, router := range routers {
		var cell *obsCell
		dynamicTables = true
		plain, ap1 := buildContainer(t, router, registrationOrder(t, nil, true), &cell)
		filtered, ap2 := buildContainer(t, router, registrationOrder(t, nil, true), &cell)
		dynamicTables = false
		if ap1 != "" || ap2 != "" {
			continue
		}
		filtered.Filter(filtered.OPTIONSFilter)
		// ... and a third with a CORS filter (every origin allowed, methods not configured) in front of the OPTIONS filter:
		// an OPTIONS request that is no preflight is passed on by the CORS filter and answered by the OPTIONS filter
		dynamicTables = true
		corsed, ap3 := buildContainer(t, router, registrationOrder(t, nil, true), &cell)
		dynamicTables = false
		if ap3 != "" {
			continue
		}
		cors := restful.CrossOriginResourceSharing{Container: corsed, CookiesAllowed: true}
		corsed.Filter(cors.Filter)
		corsed.Filter(corsed.OPTIONSFilter)
		for pass := 0; pass < 2; pass++ {
			if pass == 1 {
				// a route is added to an already registered WebService: the first route's path also serves BREW
				if len(t.Services) == 0 || len(t.Services[0].Routes) == 0 {
					break
				}
				p0 := t.Services[0].Routes[0].P
				for _, cont := range []*restful.Container{plain, filtered, corsed} {
					for _, ws := range cont.RegisteredWebServices() {
						if ws.RootPath() == t.Services[0].Root || (t.Services[0].Root == "" && ws.RootPath() == "/") {
							ws.Route(ws.Method("BREW").Path(p0).To(func(req *restful.Request, resp *restful.Response) {
								oc := cellFor(req.Request)
								oc.mu.Lock()
								oc.ran = append(oc.ran, hit{ws: 1, rt: 99, params: map[string]string{}})
								oc.mu.Unlock()
							}))
						}
					}
				}
				universe = append(universe, "BREW")
			}
			for _, path := range paths {
				probes := [][]interface{}{}
				fprobes := [][]interface{}{}
				allow405 := [][]interface{}{}
				var opt map[string]interface{}
				for _, m := range universe {
					rq := reqSpec{M: m, Path: path}
					hr, err := rq.httpRequest(false)
					if err != nil {
						continue
					}
					o := observe(plain, "D", hr, &cell)
					probes = append(probes, []interface{}{m, probeCode(o), o.Ran})
					if o.K == "err" && o.St == 405 {
						allow405 = append(allow405, []interface{}{m, o.Allow})
						// the same rejected request carrying an entity: the Allow header must not depend on it
						rb := reqSpec{M: m, Path: path, CT: "text/x-odd", Clen: 3, Clh: "3"}
						if hb, err := rb.httpRequest(false); err == nil {
							ob := observe(plain, "D", hb, &cell)
							if ob.K == "err" && ob.St == 405 {
								allow405 = append(allow405, []interface{}{m + "+body", ob.Allow})
							}
						}
					}
					hr2, _ := rq.httpRequest(false)
					cell = &obsCell{}
					rec := newRecorderObserve(filtered, hr2, &cell)
					if m == "OPTIONS" {
						opt = map[string]interface{}{"st": rec.code, "allow": splitList(rec.hdr.Get("Allow")),
							"acam": splitList(rec.hdr.Get("Access-Control-Allow-Methods")), "ran": rec.ran, "panic": rec.panicked}
						// the same question asked with a concrete Accept header: which methods are answered 404 / 405 does not depend on it
						opt["allowAcc"] = opt["allow"]
						if hr3, err := (reqSpec{M: m, Path: path, Acc: "application/xml"}).httpRequest(false); err == nil {
							cell = &obsCell{}
							rec3 := newRecorderObserve(filtered, hr3, &cell)
							opt["allowAcc"] = splitList(rec3.hdr.Get("Allow"))
						}
						opt["acamCors"] = opt["acam"]
						rq4 := reqSpec{M: m, Path: path, Hdr: map[string]string{"Origin": "http://o.test"}}
						if hr4, err := rq4.httpRequest(false); err == nil {
							cell = &obsCell{}
							rec4 := newRecorderObserve(corsed, hr4, &cell)
							opt["acamCors"] = splitList(rec4.hdr.Get("Access-Control-Allow-Methods"))
						}
					} else {
						fprobes = append(fprobes, []interface{}{m, rec.codeOrRoute(), rec.ran})
					}
				}
				if opt == nil {
					continue
				}
				// probes without the OPTIONS method, comparable with fprobes
				nprobes := [][]interface{}{}
				for _, p := range probes {
					if p[0].(string) != "OPTIONS" {
						nprobes = append(nprobes, p)
					}
				}
				tw.emit(map[string]interface{}{"e": "probe", "tid": tid, "router": router, "path": path, "pass": pass,
					"probes": probes, "nprobes": nprobes, "fprobes": fprobes, "allow405": allow405, "opt": opt})
			}
		}
	}
}

// C14: the OPTIONS filter is asked about p and about p/ (same Allow header)
func emitSlashOptionProbes(tw *traceWriter, tid int, t tableCase, routers []string) {
	if filterFlavour == 3 {
		filterFlavour = 1
		defer func() { filterFlavour = 3 }()
	}
	seen := map[string]bool{}
	for _, router := range routers {
		var cell *obsCell
		filtered, ap := buildContainer(t, router, registrationOrder(t, nil, true), &cell)
		if ap != "" {
			continue
		}
		filtered.Filter(filtered.OPTIONSFilter)
		for _, rq := range t.Reqs {
			if rq.Opaque || strings.HasSuffix(rq.Path, "/") || seen[router+" "+rq.Path] {
				continue
			}
			seen[router+" "+rq.Path] = true
			ans := [][]string{}
			for _, slash := range []bool{false, true} {
				hr, err := reqSpec{M: "OPTIONS", Path: rq.Path}.httpRequest(slash)
				if err != nil {
					break
				}
				cell = &obsCell{}
				rec := newRecorderObserve(filtered, hr, &cell)
				ans = append(ans, splitList(rec.hdr.Get("Allow")), splitList(rec.hdr.Get("Access-Control-Allow-Methods")))
			}
			if len(ans) == 4 {
				tw.emit(map[string]interface{}{"e": "sprobe", "tid": tid, "router": router, "path": rq.Path,
					"allow": ans[0], "acam": ans[1], "sallow": ans[2], "sacam": ans[3]})
			}
		}
	}
}

func probeCode(o outRec) int {
	switch o.K {
	case "panic":
		return -1
	case "route":
		return 200
	}
	return o.St
}

var _ = restful.MIME_JSON

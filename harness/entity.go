package main

// C16 driver: values serialised by the real entity writers are sent back (plain, gzip,
// deflate; well-formed or damaged) to an echo handler calling Request.ReadEntity.

import (
	"bytes"
	"compress/gzip"
	"compress/zlib"
	"encoding/json"
	"encoding/xml"
	"fmt"
	"math"
	"math/rand"
	"net/http"
	"net/http/httptest"
	"reflect"
	"strconv"
	"strings"
	"sync"

	restful "github.com/emicklei/go-restful/v3"
)

type entKind struct {
	Codec string `json:"codec"`
	CT    string `json:"ct"`  // exact | charset | default
	CE    string `json:"ce"`  // "" | gzip | deflate
	Dmg   string `json:"dmg"` // none | truncated | badheader | plain | empty | syntax
}

type entCase struct {
	Kinds []entKind `json:"kinds"`
}

type entPlan struct {
	Cases     []entCase `json:"cases"`
	Random    int       `json:"random"`
	MaxLen    int       `json:"maxLen"`
	Providers []string  `json:"providers"`
}

type entNested struct {
	X int64  `json:"x" xml:"x"`
	T string `json:"t" xml:"t"`
}

type entVal struct {
	XMLName xml.Name  `json:"-" xml:"v"`
	I64     int64     `json:"I64" xml:"i64"`
	U64     uint64    `json:"U64" xml:"u64"`
	S       string    `json:"S" xml:"s"`
	F       float64   `json:"F" xml:"f"`
	B       bool      `json:"B" xml:"b"`
	N       entNested `json:"N" xml:"n"`
	L       []int64   `json:"L" xml:"l"`
	Ls      []string  `json:"Ls" xml:"ls"`
}

func randomString(r *rand.Rand, xmlLegal bool) string {
	n := r.Intn(12)
	var b strings.Builder
	for i := 0; i < n; i++ {
		switch r.Intn(8) {
		case 0:
			b.WriteRune(rune(0x80 + r.Intn(0x700))) // 2-byte
		case 1:
			b.WriteRune(rune(0x4e00 + r.Intn(0x5000))) // CJK
		case 2:
			b.WriteRune(rune(0x1F300 + r.Intn(0x300))) // astral plane
		case 3:
			b.WriteString(pick(r, []string{"<", ">", "&", "\"", "'", "\\", "/", " ", "\\u003c", "\\u0026", "\\u003e", "\\n", "&lt;"}))
		case 4:
			if xmlLegal {
				b.WriteString(pick(r, []string{"\t", "x"}))
			} else {
				b.WriteRune(rune(r.Intn(0x20))) // control characters (JSON escapes them)
			}
		default:
			b.WriteByte(byte('a' + r.Intn(26)))
		}
	}
	s := b.String()
	if xmlLegal {
		// leading/trailing space is kept by encoding/xml; "\r" is normalised by XML itself: not generated
		s = strings.ReplaceAll(s, "\r", "")
	}
	return s
}

func randomValue(r *rand.Rand, xmlLegal bool) entVal {
	ints := []int64{0, 1, -1, math.MaxInt64, math.MinInt64, 1<<53 + 1, -(1<<53 + 1), 9007199254740993, r.Int63(), -r.Int63()}
	v := entVal{I64: ints[r.Intn(len(ints))], U64: []uint64{0, math.MaxUint64, 1<<53 + 1, r.Uint64()}[r.Intn(4)],
		S: randomString(r, xmlLegal), F: []float64{0, 1.5, -2.25, 1e100, 1e-7, float64(r.Intn(1000)) / 8}[r.Intn(6)], B: r.Intn(2) == 0,
		N: entNested{X: ints[r.Intn(len(ints))], T: randomString(r, xmlLegal)}}
	v.XMLName = xml.Name{Local: "v"}
	for i := r.Intn(4); i > 0; i-- {
		v.L = append(v.L, ints[r.Intn(len(ints))])
	}
	for i := r.Intn(3); i > 0; i-- {
		v.Ls = append(v.Ls, randomString(r, xmlLegal))
	}
	return v
}

func mimeOf(codec string) string {
	if codec == "xml" {
		return restful.MIME_XML
	}
	return restful.MIME_JSON
}

// serialise with the real entity writer of that codec
func writeWithEntityWriter(v interface{}, codec string, pretty bool) []byte {
	restful.PrettyPrintResponses = pretty
	c := restful.NewContainer()
	ws := new(restful.WebService).Path("/w").Produces(restful.MIME_JSON, restful.MIME_XML)
	ws.Route(ws.GET("").To(func(req *restful.Request, resp *restful.Response) { resp.WriteEntity(v) }))
	c.Add(ws)
	hr, _ := buildRequest("GET", "/w", [][2]string{{"Accept", mimeOf(codec)}}, nil, false)
	rec := httptest.NewRecorder()
	c.Dispatch(rec, hr)
	return rec.Body.Bytes()
}

// a write of the same kind whose underlying writer fails after budget bytes
func failedWriteBefore(v entVal, codec string, pretty bool, budget int) {
	restful.PrettyPrintResponses = pretty
	resp := restful.NewResponse(&countingWriter{hdr: http.Header{}, budget: budget})
	resp.SetRequestAccepts(mimeOf(codec))
	safely(func() { resp.WriteEntity(v) })
}

// clients compress at any level (the zlib header differs per level: 78 01, 78 5e, 78 9c, 78 da); cycled deterministically
var encLevelSeq int

func encLevel() int {
	encLevelSeq++
	return []int{-1, 1, 2, 3, 5, 6, 9, 0}[encLevelSeq%8]
}

func encodeBody(plain []byte, k entKind) []byte {
	if k.Dmg == "empty" {
		return []byte{}
	}
	if k.Dmg == "syntax" {
		plain = plain[:len(plain)/2] // truncated document
	}
	var body []byte
	switch k.CE {
	case "gzip":
		var buf bytes.Buffer
		w, _ := gzip.NewWriterLevel(&buf, encLevel())
		w.Write(plain)
		w.Close()
		body = buf.Bytes()
	case "deflate":
		var buf bytes.Buffer
		w, _ := zlib.NewWriterLevel(&buf, encLevel())
		w.Write(plain)
		w.Close()
		body = buf.Bytes()
	default:
		body = plain
	}
	switch k.Dmg {
	case "truncated":
		body = body[:len(body)/2]
	case "badheader":
		body = append([]byte{0x00, 0xff, 0x13}, body[3:]...)
	case "plain":
		body = plain // declared but not encoded
	}
	return body
}

func runEntitySeq(tw *traceWriter, r *rand.Rand, kinds []entKind, provider string) {
	l := newReqLog()
	prov := &ledgerProvider{inner: makeProvider(provider), ids: map[interface{}]int{}, cur: l}
	restful.SetCompressorProvider(prov)
	defer restful.SetCompressorProvider(restful.NewSyncPoolCompessors())
	tw.emit(map[string]interface{}{"e": "ecase", "provider": provider, "kinds": kinds})
	var typed entVal
	var untyped map[string]interface{}
	var readErr error
	var readErr2 error
	var anyVal interface{}
	var readErr3 error
	c := restful.NewContainer()
	ws := new(restful.WebService).Path("/e")
	ws.Route(ws.POST("/typed").To(func(req *restful.Request, resp *restful.Response) {
		typed = entVal{}
		readErr = req.ReadEntity(&typed)
	}))
	ws.Route(ws.POST("/untyped").To(func(req *restful.Request, resp *restful.Response) {
		untyped = nil
		readErr2 = req.ReadEntity(&untyped)
	}))
	ws.Route(ws.POST("/any").To(func(req *restful.Request, resp *restful.Response) {
		anyVal = nil
		readErr3 = req.ReadEntity(&anyVal)
	}))
	c.Add(ws)
	// JSON documents of a few bytes (the codecs' common domain has them too)
	smalls := []interface{}{map[string]interface{}{}, []interface{}{}, json.Number("7"), json.Number("0"), "", "a", true,
		json.Number("42"), []interface{}{json.Number("1")}, map[string]interface{}{"a": json.Number("1")}, "\\u003c"}
	afterDamage := false
	for i, k := range kinds {
		pretty := r.Intn(2) == 0
		v := randomValue(r, k.Codec == "xml")
		if r.Intn(3) == 0 {
			// "whatever came before": another value was written to a client that went away after some bytes
			failedWriteBefore(randomValue(r, k.Codec == "xml"), k.Codec, pretty, r.Intn(60))
		}
		plain := writeWithEntityWriter(v, k.Codec, pretty)
		body := encodeBody(plain, k)
		hdr := [][2]string{{"Content-Encoding", k.CE}}
		restful.DefaultRequestContentType("")
		switch k.CT {
		case "exact":
			hdr = append(hdr, [2]string{"Content-Type", mimeOf(k.Codec)})
		case "charset":
			hdr = append(hdr, [2]string{"Content-Type", mimeOf(k.Codec) + "; charset=UTF-8"})
		case "default":
			restful.DefaultRequestContentType(mimeOf(k.Codec))
		}
		got, equal, numExact := "ok", true, true
		hr, err := buildRequest("POST", "/e/typed", hdr, body, len(body) == 0)
		if err != nil {
			fatal("request: %v", err)
		}
		pv := safely(func() { c.Dispatch(httptest.NewRecorder(), hr) })
		if pv != "" {
			got = "panic"
		} else if readErr != nil {
			got = "error"
		} else {
			typed.XMLName = v.XMLName
			equal = reflect.DeepEqual(normalise(typed), normalise(v))
		}
		if got == "ok" && k.Codec == "json" {
			hr2, _ := buildRequest("POST", "/e/untyped", hdr, body, len(body) == 0)
			pv2 := safely(func() { c.Dispatch(httptest.NewRecorder(), hr2) })
			if pv2 != "" {
				got = "panic"
			} else if readErr2 != nil {
				got = "error"
			} else {
				n, ok := untyped["I64"].(json.Number)
				u, ok2 := untyped["U64"].(json.Number)
				numExact = ok && ok2 && n.String() == strconv.FormatInt(v.I64, 10) && u.String() == strconv.FormatUint(v.U64, 10)
			}
		}
		if got == "ok" && k.Codec == "json" && k.Dmg == "none" {
			sv := smalls[r.Intn(len(smalls))]
			body3 := encodeBody(writeWithEntityWriter(sv, "json", pretty), k)
			hr3, _ := buildRequest("POST", "/e/any", hdr, body3, len(body3) == 0)
			pv3 := safely(func() { c.Dispatch(httptest.NewRecorder(), hr3) })
			if pv3 != "" {
				got = "panic"
			} else if readErr3 != nil {
				got = "error"
			} else {
				equal = equal && reflect.DeepEqual(anyVal, sv)
			}
		}
		restful.DefaultRequestContentType("")
		tw.emit(map[string]interface{}{"e": "eres", "i": i + 1, "kind": k, "got": got, "equal": equal, "numExact": numExact,
			"afterDamage": afterDamage, "pretty": pretty, "len": len(body)})
		if k.Dmg != "none" {
			afterDamage = true
		}
	}
	acq, rel := 0, 0
	for _, e := range l.evs {
		if e.K == "acq" {
			acq++
		}
		if e.K == "rel" {
			rel++
		}
	}
	tw.emit(map[string]interface{}{"e": "eend", "acq": acq, "rel": rel})
}

// nil and empty slices are the same value for both codecs
func normalise(v entVal) entVal {
	if len(v.L) == 0 {
		v.L = nil
	}
	if len(v.Ls) == 0 {
		v.Ls = nil
	}
	return v
}

// gzip bodies from several goroutines at once on one provider: every body must decode to its own value
func runEntityConc(tw *traceWriter, r *rand.Rand, provider string, g, per int) {
	l := newReqLog()
	prov := &ledgerProvider{inner: makeProvider(provider), ids: map[interface{}]int{}, cur: l}
	restful.SetCompressorProvider(prov)
	defer restful.SetCompressorProvider(restful.NewSyncPoolCompessors())
	restful.DefaultRequestContentType("")
	kind := entKind{Codec: "json", CT: "exact", CE: "gzip", Dmg: "none"}
	tw.emit(map[string]interface{}{"e": "ecase", "provider": provider, "kinds": []entKind{kind}, "conc": g})
	c := restful.NewContainer()
	ws := new(restful.WebService).Path("/e")
	ws.Route(ws.POST("/echo").To(func(req *restful.Request, resp *restful.Response) {
		var v entVal
		if err := req.ReadEntity(&v); err != nil {
			resp.WriteErrorString(400, "ERR "+err.Error())
			return
		}
		resp.WriteAsJson(v)
	}))
	c.Add(ws)
	type item struct {
		v    entVal
		body []byte
	}
	items := make([][]item, g)
	for gi := range items {
		for j := 0; j < per; j++ {
			v := randomValue(r, false)
			v.S = strings.Repeat(fmt.Sprintf("g%d-%d-", gi, j), 20) // compressible, distinguishable
			for k := 0; k < 4000; k++ {
				// a long body: decoding takes long enough for other requests to come in between
				v.Ls = append(v.Ls, fmt.Sprintf("item-%d-%d-%d", gi, j, k))
			}
			items[gi] = append(items[gi], item{v, encodeBody(writeWithEntityWriter(v, "json", false), kind)})
		}
	}
	results := make([][]string, g)
	var wg sync.WaitGroup
	start := make(chan struct{})
	for gi := 0; gi < g; gi++ {
		wg.Add(1)
		go func(gi int) {
			defer wg.Done()
			<-start
			for _, it := range items[gi] {
				hr, _ := buildRequest("POST", "/e/echo", [][2]string{{"Content-Type", restful.MIME_JSON}, {"Content-Encoding", "gzip"}}, it.body, false)
				rec := httptest.NewRecorder()
				pv := safely(func() { c.Dispatch(rec, hr) })
				got := "ok"
				var back entVal
				if pv != "" {
					got = "panic"
				} else if rec.Code != 200 || json.Unmarshal(rec.Body.Bytes(), &back) != nil {
					got = "error"
				} else {
					back.XMLName = it.v.XMLName
					if !reflect.DeepEqual(normalise(back), normalise(it.v)) {
						got = "other"
					}
				}
				results[gi] = append(results[gi], got)
			}
		}(gi)
	}
	close(start)
	wg.Wait()
	i := 0
	for gi := range results {
		for _, got := range results[gi] {
			i++
			g2, eq := got, true
			if got == "other" {
				g2, eq = "ok", false // decoded, but to another request's value
			}
			tw.emit(map[string]interface{}{"e": "eres", "i": i, "kind": kind, "got": g2, "equal": eq, "numExact": true,
				"afterDamage": false, "pretty": false, "len": 0})
		}
	}
	acq, rel := 0, 0
	for _, ev := range l.evs {
		if ev.K == "acq" {
			acq++
		}
		if ev.K == "rel" {
			rel++
		}
	}
	tw.emit(map[string]interface{}{"e": "eend", "acq": acq, "rel": rel})
}

func runEntity(planPath, outPath string, seed int64) {
	var p entPlan
	readJSONFile(planPath, &p)
	r := rand.New(rand.NewSource(seed))
	restful.SetLogger(discardLogger{})
	restful.EnableTracing(false)
	defer func() { restful.PrettyPrintResponses = true }()
	tw := newTraceWriter(outPath)
	defer tw.close()
	if len(p.Providers) == 0 {
		p.Providers = []string{"pool", "cache0", "cache1"}
	}
	for i, cs := range p.Cases {
		runEntitySeq(tw, r, cs.Kinds, p.Providers[i%len(p.Providers)])
	}
	if p.MaxLen == 0 {
		p.MaxLen = 12
	}
	codecs := []string{"json", "xml"}
	for i := 0; i < p.Random; i++ {
		n := 2 + r.Intn(p.MaxLen)
		kinds := []entKind{}
		for j := 0; j < n; j++ {
			k := entKind{Codec: pick(r, codecs), CT: pick(r, []string{"exact", "exact", "charset", "default"}),
				CE: pick(r, []string{"", "gzip", "gzip", "deflate"}), Dmg: "none"}
			if k.CT == "charset" {
				k.Codec = "json"
			}
			if r.Intn(3) == 0 {
				k.Dmg = pick(r, []string{"truncated", "badheader", "plain", "empty", "syntax"})
				if k.CE == "" && (k.Dmg == "badheader" || k.Dmg == "plain") {
					k.Dmg = "syntax"
				}
			}
			kinds = append(kinds, k)
		}
		runEntitySeq(tw, r, kinds, pick(r, []string{"pool", "cache0", "cache1", "cache2"}))
	}
	if p.Random > 0 {
		for _, prov := range []string{"pool", "cache1", "cache2"} {
			runEntityConc(tw, r, prov, 16, 10)
		}
	}
	_ = fmt.Sprint
}

package main

import (
	"flag"
	"fmt"
	"os"
)

func main() {
	if len(os.Args) < 2 {
		fmt.Fprintln(os.Stderr, "usage: vh <driver> -in plan.json -out trace.ndjson -seed N")
		os.Exit(2)
	}
	driver := os.Args[1]
	fs := flag.NewFlagSet(driver, flag.ExitOnError)
	in := fs.String("in", "", "plan (JSON)")
	out := fs.String("out", "", "trace (ndjson)")
	seed := fs.Int64("seed", 1, "seed")
	fs.Parse(os.Args[2:])
	switch driver {
	case "route":
		runRoute(*in, *out, *seed)
	case "chain":
		runChain(*in, *out, *seed)
	case "cors":
		runCors(*in, *out, *seed)
	case "pure":
		runPure(*in, *out, *seed)
	case "registry":
		runRegistry(*in, *out, *seed)
	case "conc":
		runConc(*in, *out, *seed)
	case "pool":
		runPool(*in, *out, *seed)
	case "resp":
		runResp(*in, *out, *seed)
	case "entity":
		runEntity(*in, *out, *seed)
	case "nego":
		runNego(*in, *out, *seed)
	case "builder":
		runBuilder(*in, *out, *seed)
	default:
		fmt.Fprintf(os.Stderr, "unknown driver %q\n", driver)
		os.Exit(2)
	}
}

package main

// C05 driver: real Response.WriteEntity inside a routed handler; observes Content-Type,
// status and decodability over 12 repetitions of the same request.

import (
	"encoding/json"
	"encoding/xml"
	"fmt"
	"math/rand"
	"net/http"
	"net/http/httptest"
	"os"
	"sort"
	"strings"

	restful "github.com/emicklei/go-restful/v3"
)

type negoCase struct {
	Produces   []string `json:"produces"`
	Registered []string `json:"registered"`
	Def        string   `json:"def"`
	Accs       []string `json:"accs"`
	// Accs2[i] != "": the request carries a SECOND Accept header field with that value
	Accs2 []string `json:"accs2"`
	// Compact: the handler switches pretty printing off (the streaming branch of the entity writers)
	Compact bool `json:"compact"`
	// PreCT != "": a Content-Type is already on the response when the entity is written (a filter's default, or a
	// representation the handler abandoned)
	PreCT string `json:"preCT"`
	// Mw: a net/http middleware that wraps the ResponseWriter (a status recorder) sits in front of the route
	Mw bool `json:"mw"`
}

type negoStatusWriter struct {
	http.ResponseWriter
	status int
}

func (w *negoStatusWriter) WriteHeader(st int) {
	w.status = st
	w.ResponseWriter.WriteHeader(st)
}

type negoPlan struct {
	Cases     []negoCase `json:"cases"`
	Random    int        `json:"random"`
	Reps      int        `json:"reps"`
	NilLogger bool       `json:"nilLogger"` // run after TraceLogger(nil)
}

type negoEntity struct {
	XMLName xml.Name `json:"-" xml:"e"`
	A       string   `json:"a" xml:"a"`
	N       int      `json:"n" xml:"n"`
}

const (
	mimeVnd    = "application/vnd.Acme.X+json" // registered and declared with upper-case letters
	mimeCustom = "text/x-custom"
)

func codecOf(ct string) string {
	switch ct {
	case restful.MIME_JSON, mimeVnd:
		return "json"
	case restful.MIME_XML, mimeCustom:
		return "xml"
	}
	return ""
}

func runNegoCase(tw *traceWriter, c negoCase, registered []string, reps int) {
	restful.DefaultResponseContentType(c.Def)
	defer restful.DefaultResponseContentType("")
	// one route and one container serve every Accept header of the case: what an earlier request preferred must
	// not influence a later one
	ran := 0
	ws := new(restful.WebService).Path("/n")
	ws.Route(ws.GET("/e").Produces(c.Produces...).To(func(req *restful.Request, resp *restful.Response) {
		ran++
		if c.Compact {
			resp.PrettyPrint(false)
		}
		if c.PreCT != "" {
			resp.Header().Set("Content-Type", c.PreCT)
		}
		resp.WriteEntity(negoEntity{A: "x", N: 7})
	}))
	cont := restful.NewContainer()
	if c.Mw {
		cont.Filter(restful.HttpMiddlewareHandlerToFilter(func(next http.Handler) http.Handler {
			return http.HandlerFunc(func(w http.ResponseWriter, r *http.Request) {
				next.ServeHTTP(&negoStatusWriter{ResponseWriter: w}, r)
			})
		}))
	}
	cont.Add(ws)
	for ai, acc := range c.Accs {
		acc2 := ""
		if ai < len(c.Accs2) {
			acc2 = c.Accs2[ai]
		}
		cts := map[string]bool{}
		sts := map[int]bool{}
		dec := true
		panicked := false
		totalRan := 0
		for i := 0; i < reps; i++ {
			if i > 0 && len(c.Accs) > 1 {
				// between two repetitions the route serves a request with another header of the case (not judged here)
				if hd, err := buildRequest("GET", "/n/e", [][2]string{{"Accept", c.Accs[(ai+i)%len(c.Accs)]}}, nil, false); err == nil {
					func() {
						defer func() { recover() }()
						cont.Dispatch(httptest.NewRecorder(), hd)
					}()
				}
			}
			ran = 0
			hr, err := buildRequest("GET", "/n/e", [][2]string{{"Accept", acc}, {"Accept", acc2}}, nil, false)
			if err != nil {
				break
			}
			rec := httptest.NewRecorder()
			func() {
				defer func() {
					if recover() != nil {
						panicked = true
					}
				}()
				cont.Dispatch(rec, hr)
			}()
			totalRan += ran
			if ran == 0 || panicked {
				if panicked {
					break
				}
				continue
			}
			sts[rec.Code] = true
			ct := wireHeader(rec).Get("Content-Type")
			if rec.Code != 406 {
				cts[ct] = true
				var back negoEntity
				switch codecOf(ct) {
				case "json":
					if json.Unmarshal(rec.Body.Bytes(), &back) != nil || back.A != "x" || back.N != 7 {
						dec = false
					}
				case "xml":
					if xml.Unmarshal(rec.Body.Bytes(), &back) != nil || back.A != "x" || back.N != 7 {
						dec = false
					}
				default:
					dec = false
				}
			}
		}
		ctl := []string{}
		for k := range cts {
			ctl = append(ctl, k)
		}
		sort.Strings(ctl)
		stl := []int{}
		for k := range sts {
			stl = append(stl, k)
		}
		sort.Ints(stl)
		r := 0
		if totalRan > 0 {
			r = 1
		}
		tw.emit(map[string]interface{}{"e": "nego", "produces": c.Produces, "registered": registered, "def": c.Def,
			"acc": acc, "acc2": acc2, "ran": r, "sts": stl, "cts": ctl, "dec": dec, "panic": panicked, "compact": c.Compact, "preCT": c.PreCT, "mw": c.Mw, "ctx": c.Accs})
	}
}

func randomAccept(r *rand.Rand) string {
	medias := []string{restful.MIME_JSON, restful.MIME_XML, mimeVnd, mimeCustom, "*/*", "text/plain", "application/*", "text/html", "image/png", "text/*"}
	qs := []string{"", "", "0", "0.1", "0.5", "0.8", "1", "1.0", "0.333", "0.50"}
	n := 1 + r.Intn(5)
	if r.Intn(12) == 0 {
		n = 13 + r.Intn(8) // long headers (sorting algorithms change behaviour with length)
	}
	parts := []string{}
	for i := 0; i < n; i++ {
		p := pick(r, medias)
		sp := func() string {
			if r.Intn(3) == 0 {
				return " "
			}
			return ""
		}
		if r.Intn(6) == 0 {
			p += sp() + ";" + sp() + "level=1"
		}
		if q := pick(r, qs); q != "" {
			p += sp() + ";" + sp() + "q" + sp() + "=" + sp() + q
		}
		if r.Intn(8) == 0 {
			p += ";ext=1"
		}
		if r.Intn(40) == 0 {
			p += ";q=x" // malformed
		}
		parts = append(parts, sp()+p+sp())
	}
	return strings.Join(parts, ",")
}

func runNego(planPath, outPath string, seed int64) {
	var p negoPlan
	readJSONFile(planPath, &p)
	r := rand.New(rand.NewSource(seed))
	restful.SetLogger(discardLogger{})
	if p.NilLogger {
		restful.TraceLogger(nil)
	} else {
		restful.EnableTracing(false)
	}
	if p.Reps == 0 {
		p.Reps = 12
	}
	cases := p.Cases
	pool := []string{restful.MIME_JSON, restful.MIME_XML, mimeVnd, mimeCustom}
	for i := 0; i < p.Random; i++ {
		all := r.Intn(2) == 0
		lim := 2
		if all || r.Intn(3) == 0 {
			// also while only the built-in writers are registered: Produces names types without a writer
			lim = 4
		}
		perm := r.Perm(lim)
		n := 1 + r.Intn(lim)
		prod := []string{}
		for _, k := range perm[:n] {
			prod = append(prod, pool[k])
		}
		if !all {
			// at least one entry has a writer while only the built-in ones are registered
			hasWriter := false
			for _, p := range prod {
				hasWriter = hasWriter || p == restful.MIME_JSON || p == restful.MIME_XML
			}
			if !hasWriter {
				prod = append(prod, pool[r.Intn(2)])
			}
		}
		c := negoCase{Produces: prod, Def: pick(r, []string{"", "", "", restful.MIME_JSON, restful.MIME_XML}), Compact: r.Intn(3) == 0, Mw: r.Intn(3) == 0, PreCT: pick(r, []string{"", "", "", "text/csv", "text/plain; charset=utf-8"})}
		if all {
			c.Registered = pool
		} else {
			c.Registered = pool[:2]
		}
		for j := 0; j < 6; j++ {
			c.Accs = append(c.Accs, randomAccept(r))
		}
		if r.Intn(10) == 0 {
			c.Accs = append(c.Accs, "")
		}
		c.Accs2 = make([]string, len(c.Accs))
		if r.Intn(5) == 0 {
			// the ranges spread over two header fields
			c.Accs2[0] = pick(r, c.Produces)
			c.Accs[0] = pick(r, []string{"text/html", "image/png", "text/plain;q=0.9"})
		}
		cases = append(cases, c)
	}
	tw := newTraceWriter(outPath)
	defer tw.close()
	// the accessor registry is global and additive: built-in-only cases first
	builtin := []string{restful.MIME_JSON, restful.MIME_XML}
	for _, c := range cases {
		if len(c.Registered) <= 2 {
			runNegoCase(tw, c, builtin, p.Reps)
		}
	}
	// history: every later case was already asked for once while its writers were not registered yet (not judged:
	// the property speaks about registered writers; what is looked up before must not be remembered after)
	warm := newTraceWriter(outPath + ".warm")
	for _, c := range cases {
		if len(c.Registered) > 2 {
			runNegoCase(warm, c, builtin, 1)
		}
	}
	warm.close()
	os.Remove(outPath + ".warm")
	restful.RegisterEntityAccessor(mimeVnd, restful.NewEntityAccessorJSON(mimeVnd))
	restful.RegisterEntityAccessor(mimeCustom, restful.NewEntityAccessorXML(mimeCustom))
	all := []string{restful.MIME_JSON, restful.MIME_XML, mimeVnd, mimeCustom}
	for _, c := range cases {
		if len(c.Registered) > 2 {
			runNegoCase(tw, c, all, p.Reps)
		}
	}
	_ = fmt.Sprint
}

package main

// C15 driver: call sequences on a real Response over an instrumenting, optionally failing
// http.ResponseWriter (every failure position), with and without a compressing writer
// underneath, and read in a trailing filter through real Dispatch.

import (
	"encoding/xml"
	"errors"
	"fmt"
	"io"
	"math/rand"
	"net/http"
	"net/http/httptest"
	"strings"

	restful "github.com/emicklei/go-restful/v3"
)

type respCase struct {
	Calls []string `json:"calls"`
}

type respPlan struct {
	Cases  []respCase `json:"cases"`
	Random int        `json:"random"`
}

type countingWriter struct {
	hdr     http.Header
	status  int
	bytes   int
	budget  int // -1: unlimited
	failed  bool
	body    []byte
	headers int
}

var errUnderlying = errors.New("underlying writer failed")

// what real writers fail with (net/http's own errors among them); which one depends on the failure position
var underlyingErrors = []error{errUnderlying, http.ErrBodyNotAllowed, io.ErrClosedPipe, http.ErrHandlerTimeout, io.ErrShortWrite,
	http.ErrContentLength}

func (w *countingWriter) Header() http.Header { return w.hdr }
func (w *countingWriter) WriteHeader(s int) {
	w.headers++
	if w.status == 0 {
		w.status = s
	}
}
func (w *countingWriter) Write(b []byte) (int, error) {
	if w.budget < 0 || len(b) <= w.budget {
		if w.budget >= 0 {
			w.budget -= len(b)
		}
		w.bytes += len(b)
		w.body = append(w.body, b...)
		return len(b), nil
	}
	a := w.budget
	w.budget = 0
	w.bytes += a
	w.body = append(w.body, b[:a]...)
	w.failed = true
	return a, underlyingErrors[(w.bytes+len(b))%len(underlyingErrors)]
}

type respEntity struct {
	XMLName xml.Name `json:"-" xml:"e"`
	A       string   `json:"a" xml:"a"`
	N       int      `json:"n" xml:"n"`
}

// doCall performs one public call; hasErr tells whether the call returns an error value
func doCall(resp *restful.Response, name string) (err error, hasErr bool) {
	parts := strings.SplitN(name, ":", 2)
	v := respEntity{A: "value", N: 42}
	switch parts[0] {
	case "Write":
		n := 1
		fmt.Sscanf(parts[1], "<<%d>>", &n)
		size := map[int]int{0: 0, 1: 1, 3: 300}[n]
		if len(parts) > 1 && strings.HasPrefix(parts[1], "n=") {
			fmt.Sscanf(parts[1], "n=%d", &size)
		}
		_, err = resp.Write(payloadBytes(size))
		return err, true
	case "WriteHeader":
		st := 201
		if len(parts) > 1 {
			fmt.Sscanf(parts[1], "%d", &st) // WriteHeader:101, :204, :304 ... (final statuses with a special standing)
		}
		resp.WriteHeader(st)
		return nil, false
	case "WriteHeaderAndEntity304":
		resp.SetRequestAccepts(restful.MIME_JSON)
		return resp.WriteHeaderAndEntity(304, v), true
	case "WriteEntity":
		resp.SetRequestAccepts(restful.MIME_JSON)
		return resp.WriteEntity(v), true
	case "WriteEntityXml":
		resp.SetRequestAccepts(restful.MIME_XML)
		return resp.WriteEntity(v), true
	case "WriteHeaderAndEntity":
		resp.SetRequestAccepts(restful.MIME_JSON)
		return resp.WriteHeaderAndEntity(202, v), true
	case "WriteEntityNil":
		resp.SetRequestAccepts(restful.MIME_JSON)
		return resp.WriteEntity(nil), true
	case "WriteAsXmlPretty":
		resp.PrettyPrint(true)
		return resp.WriteAsXml(v), true
	case "WriteAsXml":
		return resp.WriteAsXml(v), true
	case "WriteAsJson":
		return resp.WriteAsJson(v), true
	case "WriteJson":
		return resp.WriteJson(v, "application/vnd.x+json"), true
	case "WriteHeaderAndJson":
		return resp.WriteHeaderAndJson(203, v, restful.MIME_JSON), true
	case "WriteHeaderAndXml":
		return resp.WriteHeaderAndXml(207, v), true
	case "WriteEntity406":
		resp.SetRequestAccepts("text/plain")
		return resp.WriteEntity(v), true
	case "WriteErrorString":
		return resp.WriteErrorString(404, "nf"), true
	case "WriteError":
		return resp.WriteError(500, errors.New("some failure")), true
	case "WriteErrorNil":
		return resp.WriteError(410, nil), true
	case "WriteServiceError":
		resp.SetRequestAccepts(restful.MIME_JSON)
		return resp.WriteServiceError(409, restful.NewError(409, "conflict")), true
	}
	fatal("unknown call %q", name)
	return nil, false
}

func runRespSeq(tw *traceWriter, calls []string, pretty bool, coding string, budget int) (total int) {
	restful.PrettyPrintResponses = pretty
	cw := &countingWriter{hdr: http.Header{}, budget: budget}
	var under http.ResponseWriter = cw
	var comp *restful.CompressingResponseWriter
	if coding != "" {
		comp, _ = restful.NewCompressingResponseWriter(cw, coding)
		under = comp
	}
	resp := restful.NewResponse(under)
	tw.emit(map[string]interface{}{"e": "rcase", "calls": calls, "pretty": pretty, "coding": coding, "budget": budget})
	for _, name := range calls {
		before := cw.failed
		var err error
		var hasErr bool
		pv := safely(func() { err, hasErr = doCall(resp, name) })
		failedNow := cw.failed && !before
		tw.emit(map[string]interface{}{"e": "rret", "name": name, "hasErr": hasErr, "err": err != nil, "panic": pv,
			"sc": resp.StatusCode(), "cl": resp.ContentLength(), "uStatus": cw.status, "uBytes": cw.bytes,
			"failed": failedNow, "coding": coding})
		if cw.failed {
			break // a handler stops writing after an error
		}
	}
	decodedLen := 0
	if comp != nil {
		comp.Close()
		if ok, data := decodeBody(coding, cw.body); ok {
			decodedLen = len(data)
		} else {
			decodedLen = -1
		}
	}
	tw.emit(map[string]interface{}{"e": "rfin", "coding": coding, "cl": resp.ContentLength(), "decodedLen": decodedLen})
	return cw.bytes
}

// the same laws observed by a trailing filter through real Dispatch
type wrappingWriter struct{ http.ResponseWriter }

// mw: an http middleware that wraps the ResponseWriter sits between the observing filter and the handler
func runRespDispatch(tw *traceWriter, calls []string, coding string, mw bool) {
	c := restful.NewContainer()
	c.EnableContentEncoding(coding != "")
	var sc, cl int
	c.Filter(func(req *restful.Request, resp *restful.Response, chain *restful.FilterChain) {
		chain.ProcessFilter(req, resp)
		sc, cl = resp.StatusCode(), resp.ContentLength()
	})
	if mw {
		c.Filter(restful.HttpMiddlewareHandlerToFilter(func(next http.Handler) http.Handler {
			return http.HandlerFunc(func(w http.ResponseWriter, r *http.Request) { next.ServeHTTP(wrappingWriter{w}, r) })
		}))
	}
	ws := new(restful.WebService).Path("/r")
	ws.Route(ws.GET("/x").To(func(req *restful.Request, resp *restful.Response) {
		for _, name := range calls {
			doCall(resp, name)
		}
	}))
	c.Add(ws)
	hr, _ := buildRequest("GET", "/r/x", [][2]string{{"Accept-Encoding", coding}}, nil, false)
	rec := httptest.NewRecorder()
	c.Dispatch(rec, hr)
	ok, data := decodeBody(wireHeader(rec).Get("Content-Encoding"), rec.Body.Bytes())
	n := len(data)
	if !ok {
		n = -1
	}
	tw.emit(map[string]interface{}{"e": "rcase", "calls": calls, "pretty": restful.PrettyPrintResponses, "coding": coding, "budget": -1, "via": "dispatch", "mw": mw})
	tw.emit(map[string]interface{}{"e": "rret", "name": "trailing-filter", "hasErr": false, "err": false, "panic": "",
		"sc": sc, "cl": cl, "uStatus": rec.Code, "uBytes": n, "failed": false, "coding": ""})
}

// a custom RouteSelector (Container.Router) that fails with errors of its own: whatever dispatch does with
// them, the trailing filter must be told what the underlying writer received
type failingSelector struct {
	restful.CurlyRouter
	kind string
}

type selectorError struct{ msg string }

func (e selectorError) Error() string { return e.msg }

func (s failingSelector) SelectRoute(webServices []*restful.WebService, httpRequest *http.Request) (*restful.WebService, *restful.Route, error) {
	if httpRequest.URL.Path == "/r/fail" {
		switch s.kind {
		case "plain":
			return nil, nil, fmt.Errorf("selector failed")
		case "typed":
			return nil, nil, selectorError{"selector failed (typed)"}
		case "wrapped":
			return nil, nil, fmt.Errorf("wrapped: %w", restful.NewError(404, "inner"))
		case "service":
			return nil, nil, restful.NewError(418, "teapot")
		}
	}
	return s.CurlyRouter.SelectRoute(webServices, httpRequest)
}

func runRespSelectorError(tw *traceWriter, kind, coding string) {
	c := restful.NewContainer()
	c.Router(failingSelector{kind: kind})
	c.EnableContentEncoding(coding != "")
	var sc, cl int
	c.Filter(func(req *restful.Request, resp *restful.Response, chain *restful.FilterChain) {
		chain.ProcessFilter(req, resp)
		sc, cl = resp.StatusCode(), resp.ContentLength()
	})
	ws := new(restful.WebService).Path("/r")
	ws.Route(ws.GET("/x").To(func(req *restful.Request, resp *restful.Response) { resp.Write([]byte("x")) }))
	c.Add(ws)
	hr, _ := buildRequest("GET", "/r/fail", [][2]string{{"Accept-Encoding", coding}}, nil, false)
	rec := httptest.NewRecorder()
	pv := safely(func() { c.Dispatch(rec, hr) })
	ok, data := decodeBody(wireHeader(rec).Get("Content-Encoding"), rec.Body.Bytes())
	n := len(data)
	if !ok {
		n = -1
	}
	tw.emit(map[string]interface{}{"e": "rcase", "calls": []string{"selector-error:" + kind}, "pretty": restful.PrettyPrintResponses, "coding": coding, "budget": -1, "via": "dispatch", "mw": false})
	tw.emit(map[string]interface{}{"e": "rret", "name": "trailing-filter", "hasErr": false, "err": false, "panic": pv,
		"sc": sc, "cl": cl, "uStatus": rec.Code, "uBytes": n, "failed": false, "coding": ""})
}

func runResp(planPath, outPath string, seed int64) {
	var p respPlan
	readJSONFile(planPath, &p)
	r := rand.New(rand.NewSource(seed))
	restful.SetLogger(discardLogger{})
	restful.EnableTracing(false)
	defer func() { restful.PrettyPrintResponses = true }()
	tw := newTraceWriter(outPath)
	defer tw.close()
	for _, kind := range []string{"plain", "typed", "wrapped", "service"} {
		for _, coding := range []string{"", "gzip"} {
			runRespSelectorError(tw, kind, coding)
		}
	}
	cases := p.Cases
	statusCalls := []string{"WriteHeader", "WriteEntity", "WriteEntityXml", "WriteHeaderAndEntity", "WriteEntityNil", "WriteAsXmlPretty", "WriteAsXml",
		"WriteAsJson", "WriteJson", "WriteHeaderAndJson", "WriteHeaderAndXml", "WriteEntity406", "WriteErrorString", "WriteError", "WriteErrorNil", "WriteServiceError",
		"WriteHeader:101", "WriteHeader:204", "WriteHeader:304", "WriteHeader:599", "WriteHeaderAndEntity304"}
	for i := 0; i < p.Random; i++ {
		c := respCase{}
		if r.Intn(4) > 0 {
			c.Calls = append(c.Calls, pick(r, statusCalls))
		}
		for k := r.Intn(4); k > 0; k-- {
			c.Calls = append(c.Calls, fmt.Sprintf("Write:n=%d", []int{0, 1, 7, 300, 5000, 70000}[r.Intn(6)]))
		}
		if len(c.Calls) == 0 {
			c.Calls = []string{"Write:n=5"}
		}
		cases = append(cases, c)
	}
	for _, cs := range cases {
		if len(cs.Calls) == 1 && strings.HasPrefix(cs.Calls[0], "selector-error:") {
			// replay of a failing-selector observation
			for _, coding := range []string{"", "gzip"} {
				runRespSelectorError(tw, strings.TrimPrefix(cs.Calls[0], "selector-error:"), coding)
			}
			continue
		}
		for _, pretty := range []bool{true, false} {
			total := runRespSeq(tw, cs.Calls, pretty, "", -1)
			// every failure position (sampled when the sequence is long)
			step := 1
			if total > 60 {
				step = total / 40
			}
			for k := 0; k <= total+1; k += step {
				runRespSeq(tw, cs.Calls, pretty, "", k)
			}
			for _, coding := range []string{"gzip", "deflate"} {
				runRespSeq(tw, cs.Calls, pretty, coding, -1)
			}
			restful.PrettyPrintResponses = pretty
			runRespDispatch(tw, cs.Calls, "", false)
			runRespDispatch(tw, cs.Calls, "gzip", false)
			runRespDispatch(tw, cs.Calls, "", true)
		}
	}
}

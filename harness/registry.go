package main

// C11 driver: registration histories on a real Container; after every operation a fresh
// container is built from the same content and both answer a probe set through ServeHTTP
// and Dispatch.

import (
	"fmt"
	"math/rand"
	"net/http"
	"net/http/httptest"
	"strings"

	restful "github.com/emicklei/go-restful/v3"
)

type regHistory struct {
	Ops [][]string `json:"ops"`
}

type regPlan struct {
	Histories []regHistory `json:"histories"`
	Random    int          `json:"random"`
	MaxOps    int          `json:"maxOps"`
	Router    string       `json:"router"`
}

type regService struct {
	root   string
	routes []string // route paths currently present (method GET), in order
}

func (s *regService) build() *restful.WebService {
	ws := new(restful.WebService).Path(s.root)
	ws.SetDynamicRoutes(true)
	for _, p := range s.routes {
		if p == "/dup" {
			addDupRoutes(ws, s.root)
			continue
		}
		addRegRoute(ws, s.root, p)
	}
	return ws
}

// two routes with the same method and path, registered one after the other: the first only serves requests
// that ask for it, the second serves the rest. RemoveRoute(path, method) removes both.
func addDupRoutes(ws *restful.WebService, root string) {
	tag := "ws:" + root + ":/dup"
	ws.Route(ws.GET("/dup").If(func(r *http.Request) bool { return r.Header.Get("X-V") == "1" }).
		To(func(req *restful.Request, resp *restful.Response) { resp.Write([]byte(tag + "#1")) }))
	ws.Route(ws.GET("/dup").To(func(req *restful.Request, resp *restful.Response) { resp.Write([]byte(tag + "#2")) }))
}

func addRegRoute(ws *restful.WebService, root, p string) {
	tag := "ws:" + root + ":" + p
	// the condition is user code running during route selection: it panics when asked to
	ws.Route(ws.GET(p).If(func(r *http.Request) bool {
		if r.Header.Get("X-Boom") != "" {
			panic("boom in condition")
		}
		return true
	}).To(func(req *restful.Request, resp *restful.Response) { resp.Write([]byte(tag)) }))
}

var regHistSeq int

func regHandler(p string) http.Handler {
	return http.HandlerFunc(func(w http.ResponseWriter, r *http.Request) { w.Write([]byte("h:" + p)) })
}

func regProbe(c *restful.Container, entry, path string) (proj string, class string) {
	// "#v": the request asks for the first of two routes on one method and path (header X-V: 1, see addDupRoutes);
	// both routes serve it, so which one runs depends on their order
	var hdr [][2]string
	if strings.HasSuffix(path, "#v") {
		path, hdr = strings.TrimSuffix(path, "#v"), [][2]string{{"X-V", "1"}}
	}
	hr, err := buildRequest("GET", path, hdr, nil, false)
	if err != nil {
		return "badreq", "other"
	}
	rec := httptest.NewRecorder()
	esc := ""
	func() {
		defer func() {
			if pv := recover(); pv != nil {
				esc = fmt.Sprint(pv)
			}
		}()
		if entry == "S" {
			c.ServeHTTP(rec, hr)
		} else {
			c.Dispatch(rec, hr)
		}
	}()
	body := rec.Body.String()
	proj = fmt.Sprintf("%d|%s|%s|%s|%s", rec.Code, body, wireHeader(rec).Get("Location"), esc, wireHeader(rec).Get("X-CF"))
	switch {
	case esc != "":
		class = "other"
	case rec.Code == 301 || rec.Code == 307 || rec.Code == 308:
		class = "redirect"
	case strings.HasPrefix(body, "h:"):
		class = "owner"
	case rec.Code == 404 && strings.HasPrefix(body, "404 page not found"):
		class = "notfound"
	default:
		class = "owner"
	}
	return
}

func safely(f func()) (pv string) {
	defer func() {
		if r := recover(); r != nil {
			pv = fmt.Sprint(r)
			if len(pv) > 100 {
				pv = pv[:100]
			}
		}
	}()
	f()
	return ""
}

// regHandleFiltered: plain handlers of this history are registered with HandleWithFilter (the container filter
// marks every response it sees with X-CF)
var regHandleFiltered bool

func regHandle(c *restful.Container, pattern string) {
	if regHandleFiltered {
		c.HandleWithFilter(pattern, regHandler(pattern))
	} else {
		c.Handle(pattern, regHandler(pattern))
	}
}

func newRegContainer(router string) *restful.Container {
	c := restful.NewContainer()
	c.Filter(func(req *restful.Request, resp *restful.Response, chain *restful.FilterChain) {
		resp.AddHeader("X-CF", "1")
		chain.ProcessFilter(req, resp)
	})
	if router == "jsr311" {
		c.Router(restful.RouterJSR311{})
	}
	return c
}

var regProbes = []string{"/a/dup#v", "/ab/dup#v", "/q/dup#v", "/dup#v", "/a/dup", "/ab/dup", "/q/dup", "/dup", "/", "/a", "/a/", "/a/b", "/a/b/z", "/a/q/c", "/a/q/d", "/ab", "/ab/z", "/q", "/h/x", "/plain", "/a/q",
	"/a/x", "/a/b/x", "/ab/x", "/a/q/c/x", "/q/x", "/a/dyn", "/a/dyn2", "/q/dyn2", "/ab/dyn2", "/users/7/a", "/users/7/b/x", "/x", "/a/b/dyn"}

func runRegHistory(tw *traceWriter, h regHistory, router string) {
	regHistSeq++
	regHandleFiltered = regHistSeq%2 == 0
	defer func() { regHandleFiltered = false }()
	tw.emit(map[string]interface{}{"e": "rhist", "ops": h.Ops, "router": router})
	c := newRegContainer(router)
	live := map[string]*restful.WebService{} // root -> the object registered in c
	content := []*regService{}
	handlers := [][]string{}
	afterRemove := false
	for _, op := range h.Ops {
		pv := ""
		switch op[0] {
		case "add":
			s := &regService{root: op[1], routes: []string{"", "/x", "/{p}"}}
			ws := s.build()
			pv = safely(func() { c.Add(ws) })
			if pv == "" {
				live[op[1]] = ws
				content = append(content, s)
			}
		case "remove":
			if ws, ok := live[op[1]]; ok {
				pv = safely(func() { c.Remove(ws) })
				delete(live, op[1])
				nc := []*regService{}
				for _, s := range content {
					if s.root != op[1] {
						nc = append(nc, s)
					}
				}
				content = nc
				afterRemove = true
			}
		case "handle":
			pv = safely(func() { regHandle(c, op[1]) })
			if pv == "" {
				handlers = append(handlers, []string{op[1], op[1]})
			}
		case "badhandle":
			// a registration that net/http may refuse (the pattern is taken): Handle panics, as documented, the
			// caller recovers, and the container is as it was
			if refused := safely(func() { regHandle(c, op[1]) }); refused == "" {
				op = []string{"handle", op[1]}
				handlers = append(handlers, []string{op[1], op[1]})
			}
		case "dup": // two routes on one method and path
			if ws, ok := live[op[1]]; ok {
				for _, s := range content {
					if s.root == op[1] {
						has := false
						for _, p := range s.routes {
							has = has || p == "/dup"
						}
						if !has {
							addDupRoutes(ws, s.root)
							s.routes = append(s.routes, "/dup")
						}
					}
				}
			}
		case "undup":
			if ws, ok := live[op[1]]; ok {
				for _, s := range content {
					if s.root == op[1] {
						ws.RemoveRoute(strings.TrimRight(s.root, "/")+"/dup", "GET")
						nr := []string{}
						for _, p := range s.routes {
							if p != "/dup" {
								nr = append(nr, p)
							}
						}
						s.routes = nr
					}
				}
			}
		case "route": // add route /dyn to a live service
			if ws, ok := live[op[1]]; ok {
				for _, s := range content {
					if s.root == op[1] {
						has := false
						for _, p := range s.routes {
							if p == "/dyn" {
								has = true
							}
						}
						if !has {
							addRegRoute(ws, s.root, "/dyn")
							s.routes = append(s.routes, "/dyn")
						}
					}
				}
			}
		case "swap": // RemoveRoute(/x) and Route(/dyn2) with no request in between: the number of routes stays
			if ws, ok := live[op[1]]; ok {
				for _, s := range content {
					if s.root == op[1] {
						hasX, hasD := false, false
						for _, p := range s.routes {
							hasX = hasX || p == "/x"
							hasD = hasD || p == "/dyn2"
						}
						if hasX && !hasD {
							ws.RemoveRoute(strings.TrimRight(s.root, "/")+"/x", "GET")
							addRegRoute(ws, s.root, "/dyn2")
							nr := []string{}
							for _, p := range s.routes {
								if p != "/x" {
									nr = append(nr, p)
								}
							}
							s.routes = append(nr, "/dyn2")
						}
					}
				}
			}
		case "clear": // remove every route of a live service, one by one, and once more when none is left
			if ws, ok := live[op[1]]; ok {
				for _, s := range content {
					if s.root == op[1] {
						pv = safely(func() {
							for _, rt := range ws.Routes() {
								ws.RemoveRoute(rt.Path, rt.Method)
							}
							ws.RemoveRoute(strings.TrimRight(s.root, "/")+"/x", "GET")
						})
						s.routes = []string{}
					}
				}
			}
		case "unroute": // remove route /x from a live service
			if ws, ok := live[op[1]]; ok {
				for _, s := range content {
					if s.root == op[1] {
						full := strings.TrimRight(s.root, "/") + "/x"
						ws.RemoveRoute(full, "GET")
						nr := []string{}
						for _, p := range s.routes {
							if p != "/x" {
								nr = append(nr, p)
							}
						}
						s.routes = nr
					}
				}
			}
		}
		// a fresh container with the same content
		fresh := newRegContainer(router)
		freshPanic := ""
		for _, s := range content {
			ws := s.build()
			if p := safely(func() { fresh.Add(ws) }); p != "" {
				freshPanic = p
			}
		}
		for _, hp := range handlers {
			hp := hp
			if p := safely(func() { regHandle(fresh, hp[0]) }); p != "" {
				freshPanic = p
			}
		}
		roots := []string{}
		for _, s := range content {
			roots = append(roots, s.root)
		}
		tw.emit(map[string]interface{}{"e": "rop", "op": op, "panic": pv, "freshPanic": freshPanic,
			"content": map[string]interface{}{"services": roots, "handlers": handlers}})
		if pv != "" {
			return // the history cannot continue on a container whose Add panicked
		}
		for _, path := range regProbes {
			for _, en := range []string{"S", "D"} {
				hp, _ := regProbe(c, en, path)
				fp, fclass := regProbe(fresh, en, path)
				tw.emit(map[string]interface{}{"e": "rprobe", "entry": en, "path": strings.TrimSuffix(path, "#v"), "v": strings.HasSuffix(path, "#v"), "h": hp, "f": fp, "fclass": fclass,
					"afterRemove": afterRemove, "canon": !strings.Contains(path, "//")})
			}
		}
	}
}

func runRegistry(planPath, outPath string, seed int64) {
	var p regPlan
	readJSONFile(planPath, &p)
	r := rand.New(rand.NewSource(seed))
	restful.SetLogger(discardLogger{})
	restful.EnableTracing(false)
	tw := newTraceWriter(outPath)
	defer tw.close()
	for _, h := range p.Histories {
		runRegHistory(tw, h, "curly")
	}
	pool := []string{"/", "/a", "/a/", "/a/b", "/ab", "/a/{x}", "/a/{x}/c", "/a/{x}/d", "/{x}", "/users/{id}/a", "/users/{id}/b", "/q"}
	hpool := []string{"/h/", "/plain", "/static/"}
	if p.MaxOps == 0 {
		p.MaxOps = 12
	}
	for i := 0; i < p.Random; i++ {
		present := map[string]bool{}
		handled := map[string]bool{}
		everRoot := false
		h := regHistory{}
		n := 3 + r.Intn(p.MaxOps)
		if r.Intn(3) == 0 {
			for _, hp := range hpool[:2+r.Intn(2)] {
				handled[hp] = true
				h.Ops = append(h.Ops, []string{"handle", hp})
			}
		}
		livePick := func() string {
			roots := []string{}
			for _, q := range pool {
				if present[q] {
					roots = append(roots, q)
				}
			}
			if len(roots) > 0 && r.Intn(4) > 0 {
				return pick(r, roots)
			}
			return pick(r, pool)
		}
		for k := 0; k < n; k++ {
			x := r.Intn(100)
			switch {
			case x < 40:
				root := pick(r, pool)
				if !present[root] {
					everRoot = everRoot || root == "/" || strings.HasPrefix(root, "/{")
					present[root] = true
					h.Ops = append(h.Ops, []string{"add", root})
				}
			case x < 62:
				if len(present) > 0 {
					roots := []string{}
					for _, q := range pool {
						if present[q] {
							roots = append(roots, q)
						}
					}
					root := pick(r, roots)
					delete(present, root)
					h.Ops = append(h.Ops, []string{"remove", root})
				}
			case x < 70:
				hp := pick(r, hpool)
				if !handled[hp] {
					handled[hp] = true
					h.Ops = append(h.Ops, []string{"handle", hp})
				}
			case x < 74:
				h.Ops = append(h.Ops, []string{"route", livePick()})
			case x < 76:
				// a pattern that is certainly taken: handled before, or mapped by a present WebService (no
				// WebService on "/" in this history: after one, later services register no pattern of their own)
				cands := []string{}
				for _, hp := range hpool {
					if handled[hp] {
						cands = append(cands, hp)
					}
				}
				if !everRoot {
					for _, q := range []string{"/a", "/ab", "/q"} {
						if present[q] {
							cands = append(cands, q, q+"/")
						}
					}
				}
				if len(cands) > 0 {
					h.Ops = append(h.Ops, []string{"badhandle", pick(r, cands)})
				}
			case x < 81:
				// two routes on one method and path are added to a present WebService and removed again
				cands := []string{}
				for _, q := range []string{"/", "/a", "/ab", "/q"} {
					if present[q] {
						cands = append(cands, q)
					}
				}
				if len(cands) > 0 {
					root := pick(r, cands)
					h.Ops = append(h.Ops, []string{"dup", root})
					if r.Intn(2) == 0 {
						// another route of that WebService goes (or comes and goes) while the pair is there
						h.Ops = append(h.Ops, []string{pick(r, []string{"unroute", "swap", "route"}), root})
					}
					h.Ops = append(h.Ops, []string{"undup", root})
				}
			case x < 89:
				h.Ops = append(h.Ops, []string{"swap", livePick()})
			case x < 92:
				root := livePick()
				h.Ops = append(h.Ops, []string{"clear", root}, []string{"route", root})
			default:
				h.Ops = append(h.Ops, []string{"unroute", livePick()})
			}
		}
		runRegHistory(tw, h, pick(r, []string{"curly", "jsr311"}))
	}
}

package main

// Dispatch family driver (C06, C07, C10): generated filters / handlers / recover handler and
// an instrumenting CompressorProvider log one event sequence per request; the sequence is
// judged by the monitor of spec/Dispatch.tla.

import (
	"bufio"
	"bytes"
	"compress/gzip"
	"compress/zlib"
	"errors"
	"fmt"
	"io"
	"math/rand"
	"net"
	"net/http"
	"net/http/httptest"
	"strings"
	"sync"
	"time"

	restful "github.com/emicklei/go-restful/v3"
)

type chainCase struct {
	Lv     [3]int   `json:"lv"`
	Sc     []string `json:"sc"`
	Tgt    string   `json:"tgt"` // ok | panic | panicAfterWrite
	Routed bool     `json:"routed"`
	Rec    bool     `json:"rec"`
	Enc    bool     `json:"enc"` // shorthand from the model: container encoding on, Accept-Encoding: gzip
	// harness-side dimensions
	Entry     string `json:"entry"` // D | S | H | HF
	CEnc      bool   `json:"cEnc"`
	REnc      string `json:"rEnc"` // unset | on | off
	AE        string `json:"ae"`
	PreCE     string `json:"preCE"`
	Provider  string `json:"provider"` // pool | cache0 | cache1 | cache2
	Payload   int    `json:"payload"`
	Chunks    int    `json:"chunks"`
	FWrites   bool   `json:"fwrites"`   // filters write before and after passing
	RecStatus int    `json:"recStatus"` // 0: default recover handler
	ErrKind   int    `json:"errKind"`   // unrouted requests: 404 or 405
	Conc      int    `json:"conc"`      // > 0: that many goroutines send this request concurrently
	FlipAfter bool   `json:"flipAfter"` // the container switch has the other value while everything is registered
	FailAt    int    `json:"failAt"`    // > 0: the underlying writer fails from that byte on (client gone)
	Alt       bool   `json:"alt"`       // the second of two requests goes to the other route on the same method and path
	CondPanic bool   `json:"condPanic"` // a condition function of the route panics during selection (under the read lock)
	Origin    string `json:"origin"`    // Origin header of the requests (filters scripted "cors" are real CORS filters)
	PanicVal  string `json:"panicVal"`  // "" (a string) | abort (http.ErrAbortHandler) | err | int : the value panics are raised with
	Copy      bool   `json:"copy"`      // targets stream with io.Copy into the writer below the Response (io.ReaderFrom fast paths)
	RouteFlip bool   `json:"routeFlip"` // a copy of the OTHER route (from WebService.Routes()) gets the opposite encoding setting at run time
	Uneven    bool   `json:"uneven"`    // small writes directly followed by large ones
	HijackNo  bool   `json:"hijackNo"`  // the target tries Hijack first; the writer below refuses; the target answers normally
	Nested    bool   `json:"nested"`    // entry S: the container is mounted with HandleWithFilter("/") in an outer container with the same encoding switch and a filter
	ReadPanic bool   `json:"readPanic"` // the request carries a gzip entity; the target reads it and the entity's own UnmarshalJSON panics
}

// panicky: user code below Request.ReadEntity that panics
type panicky struct{}

func (p *panicky) UnmarshalJSON(b []byte) error {
	if curLog != nil {
		curLog.add(devent{K: "panic", F: 0})
	}
	panic("target-panic-in-unmarshal")
}

// bufferWriter: what a buffering filter puts in place of Response.ResponseWriter
type bufferWriter struct {
	hdr    http.Header
	status int
	buf    bytes.Buffer
}

func (b *bufferWriter) Header() http.Header { return b.hdr }
func (b *bufferWriter) WriteHeader(s int) {
	if b.status == 0 {
		b.status = s
	}
}
func (b *bufferWriter) Write(p []byte) (int, error) { return b.buf.Write(p) }

var errPanicValue = fmt.Errorf("target-panic-error-value")

// panicValue: the value a scripted panic is raised with
func panicValue(kind, text string) interface{} {
	switch kind {
	case "abort":
		return http.ErrAbortHandler
	case "err":
		return errPanicValue
	case "int":
		return 4242
	}
	return text
}

func isPanicValue(pv interface{}) bool {
	if pv == http.ErrAbortHandler || pv == errPanicValue || pv == 4242 {
		return true
	}
	s := fmt.Sprint(pv)
	return strings.HasPrefix(s, "pb-") || strings.HasPrefix(s, "pa-") || strings.HasPrefix(s, "target-panic")
}

// onlyReader hides every optional interface of a reader (io.WriterTo), so that io.Copy looks for
// io.ReaderFrom on the destination
type onlyReader struct{ r io.Reader }

func (o onlyReader) Read(p []byte) (int, error) { return o.r.Read(p) }

// readFromRecorder: a recorder that, like the ResponseWriter of a real server, implements io.ReaderFrom
type readFromRecorder struct {
	*httptest.ResponseRecorder
}

func (r readFromRecorder) ReadFrom(src io.Reader) (int64, error) {
	return io.Copy(struct{ io.Writer }{r.ResponseRecorder}, src)
}

type chainPlan struct {
	Cases  []chainCase `json:"cases"`
	Random int         `json:"random"`
	Mode   string      `json:"mode"` // chain | enc | panic : which dimensions random cases vary
}

// ---------- event log ----------

type devent struct {
	K   string `json:"k"`
	F   int    `json:"f"`
	Rq  int    `json:"rq"`
	Rs  int    `json:"rs"`
	At  []int  `json:"at"`
	Who int    `json:"who"` // value of the attribute every passing filter overwrites
}

func whoOf(req *restful.Request) int {
	if req == nil {
		return 0
	}
	if v, ok := req.Attribute("who").(int); ok {
		return v
	}
	return 0
}

type reqLog struct {
	mu      sync.Mutex
	evs     []devent
	ids     map[interface{}]int
	rids    map[interface{}]int
	written bytes.Buffer
	wcalls  int // Write calls by filters / targets (an empty Write commits the status too)
	wknown  bool
}

func newReqLog() *reqLog {
	return &reqLog{ids: map[interface{}]int{}, rids: map[interface{}]int{}, wknown: true}
}

// identities of *restful.Request and *restful.Response objects, numbered separately from 1
func (l *reqLog) id(p interface{}) int {
	l.mu.Lock()
	defer l.mu.Unlock()
	m := l.ids
	if _, isResp := p.(*restful.Response); isResp {
		m = l.rids
	}
	if v, ok := m[p]; ok {
		return v
	}
	m[p] = len(m) + 1
	return m[p]
}

func (l *reqLog) add(e devent) {
	l.mu.Lock()
	if e.At == nil {
		e.At = []int{}
	}
	l.evs = append(l.evs, e)
	l.mu.Unlock()
}

var (
	logsMu sync.Mutex
	logs   = map[string]*reqLog{}
)

func logFor(r *http.Request) *reqLog {
	logsMu.Lock()
	defer logsMu.Unlock()
	if l, ok := logs[r.Header.Get("X-Rid")]; ok {
		return l
	}
	return newReqLog() // probe requests: nobody reads this log
}

// ---------- instrumenting compressor provider ----------

type trapSink struct {
	p   *ledgerProvider
	obj interface{}
}

func (t trapSink) Write(b []byte) (int, error) {
	t.p.event("use", t.obj)
	return len(b), nil
}

type ledgerProvider struct {
	// readerKinds: decompressors of request bodies are logged as racq / rrel (the monitor of the dispatch family
	// allows one COMPRESSOR per response, and any number of readers)
	readerKinds bool
	inner       restful.CompressorProvider
	mu          sync.Mutex
	ids         map[interface{}]int
	cur         *reqLog // sequential drivers: the request in flight
	trap        bool
}

func (p *ledgerProvider) event(k string, obj interface{}) {
	p.mu.Lock()
	id, ok := p.ids[obj]
	if !ok {
		id = len(p.ids) + 1
		p.ids[obj] = id
	}
	cur := p.cur
	p.mu.Unlock()
	if cur != nil {
		cur.add(devent{K: k, F: id})
	}
}
func (p *ledgerProvider) AcquireGzipWriter() *gzip.Writer {
	w := p.inner.AcquireGzipWriter()
	p.event("acq", w)
	return w
}
func (p *ledgerProvider) ReleaseGzipWriter(w *gzip.Writer) {
	p.event("rel", w)
	if p.trap {
		w.Reset(trapSink{p, w})
	}
	p.inner.ReleaseGzipWriter(w)
}
func (p *ledgerProvider) AcquireGzipReader() *gzip.Reader {
	r := p.inner.AcquireGzipReader()
	if p.readerKinds {
		p.event("racq", r)
	} else {
		p.event("acq", r)
	}
	return r
}
func (p *ledgerProvider) ReleaseGzipReader(r *gzip.Reader) {
	if p.readerKinds {
		p.event("rrel", r)
	} else {
		p.event("rel", r)
	}
	p.inner.ReleaseGzipReader(r)
}
func (p *ledgerProvider) AcquireZlibWriter() *zlib.Writer {
	w := p.inner.AcquireZlibWriter()
	p.event("acq", w)
	return w
}
func (p *ledgerProvider) ReleaseZlibWriter(w *zlib.Writer) {
	p.event("rel", w)
	if p.trap {
		w.Reset(trapSink{p, w})
	}
	p.inner.ReleaseZlibWriter(w)
}

func makeProvider(kind string) restful.CompressorProvider {
	switch kind {
	case "cache0":
		return restful.NewBoundedCachedCompressors(0, 0)
	case "cache1":
		return restful.NewBoundedCachedCompressors(1, 1)
	case "cache2":
		return restful.NewBoundedCachedCompressors(2, 2)
	}
	return restful.NewSyncPoolCompessors()
}

// ---------- generated filters and targets ----------

func seenAttrs(req *restful.Request, hr *http.Request, n int) []int {
	out := []int{}
	for i := 1; i <= n; i++ {
		if (req != nil && req.Attribute(fmt.Sprintf("f%d", i)) != nil) || hr.Header.Get(fmt.Sprintf("X-Mw-%d", i)) != "" {
			out = append(out, i)
		}
	}
	return out
}

// svcTag != "": the filter belongs to service /<svcTag>; running for a request of another
// service is logged as filter 99 (no request has such a filter: the monitor rejects it)
func ownsRequest(tag string, r *http.Request) bool {
	switch tag {
	case "":
		return true
	case "alt": // the second route on /s/r, selected by a condition on this header
		return strings.HasPrefix(r.URL.Path, "/s/") && r.Header.Get("X-Alt") != ""
	case "s":
		return strings.HasPrefix(r.URL.Path, "/s/") && r.Header.Get("X-Alt") == ""
	case "sany": // service-level filters of /s serve both of its routes
		return strings.HasPrefix(r.URL.Path, "/s/")
	}
	return strings.HasPrefix(r.URL.Path, "/"+tag+"/")
}

var genPanicVal string // the PanicVal of the case whose container is being built / served

func genFilter(i int, script string, fwrites bool, nAll int, svcTag string) restful.FilterFunction {
	pval := genPanicVal
	cors := restful.CrossOriginResourceSharing{AllowedDomains: []string{"http://allowed.example"}, CookiesAllowed: true}
	return func(req *restful.Request, resp *restful.Response, chain *restful.FilterChain) {
		l := logFor(req.Request)
		if !ownsRequest(svcTag, req.Request) {
			l.add(devent{K: "enter", F: 99, Rq: l.id(req), Rs: l.id(resp)})
		}
		l.add(devent{K: "enter", F: i, Rq: l.id(req), Rs: l.id(resp), At: seenAttrs(req, req.Request, nAll), Who: whoOf(req)})
		if script == "pb" {
			l.add(devent{K: "panic", F: i})
			panic(panicValue(pval, fmt.Sprintf("pb-%d", i)))
		}
		if fwrites {
			b := []byte(fmt.Sprintf("<%d", i))
			l.wcalls++
			l.written.Write(b)
			resp.Write(b)
		}
		switch script {
		case "stop":
			l.add(devent{K: "exit", F: i})
			return
		case "replace":
			nreq := restful.NewRequest(req.Request)
			for k := 1; k <= nAll; k++ {
				if v := req.Attribute(fmt.Sprintf("f%d", k)); v != nil {
					nreq.SetAttribute(fmt.Sprintf("f%d", k), v)
				}
			}
			nreq.SetAttribute(fmt.Sprintf("f%d", i), 1)
			// the attribute earlier filters set on the OLD request is set anew on the new one
			req.SetAttribute("who", -i)
			nreq.SetAttribute("who", i)
			nresp := restful.NewResponse(resp.ResponseWriter)
			l.add(devent{K: "pass", F: i, Rq: l.id(nreq), Rs: l.id(nresp), Who: i})
			chain.ProcessFilter(nreq, nresp)
			l.add(devent{K: "ret", F: i})
		case "mw":
			mw := func(next http.Handler) http.Handler {
				return http.HandlerFunc(func(w http.ResponseWriter, r *http.Request) {
					r2 := r.Clone(r.Context())
					r2.Header.Set(fmt.Sprintf("X-Mw-%d", i), "1")
					next.ServeHTTP(w, r2)
				})
			}
			l.add(devent{K: "pass", F: i, Rq: l.id(req), Rs: l.id(resp)})
			restful.HttpMiddlewareHandlerToFilter(mw)(req, resp, chain)
			l.add(devent{K: "ret", F: i})
		case "buffer":
			// a buffering filter: the rest of the chain writes into a buffer that is copied out afterwards (a panic
			// further down skips the copy; the recover handler must still reach the client)
			req.SetAttribute(fmt.Sprintf("f%d", i), 1)
			req.SetAttribute("who", i)
			orig := resp.ResponseWriter
			bw := &bufferWriter{hdr: orig.Header()}
			resp.ResponseWriter = bw
			l.add(devent{K: "pass", F: i, Rq: l.id(req), Rs: l.id(resp), Who: i})
			chain.ProcessFilter(req, resp)
			l.add(devent{K: "ret", F: i})
			resp.ResponseWriter = orig
			if bw.status != 0 {
				orig.WriteHeader(bw.status)
			}
			if bw.buf.Len() > 0 {
				orig.Write(bw.buf.Bytes())
			}
		case "cors":
			// a real CORS filter (actual requests only: it passes control on exactly once, whatever the Origin)
			req.SetAttribute(fmt.Sprintf("f%d", i), 1)
			req.SetAttribute("who", i)
			l.add(devent{K: "pass", F: i, Rq: l.id(req), Rs: l.id(resp), Who: i})
			cors.Filter(req, resp, chain)
			l.add(devent{K: "ret", F: i})
		default: // pass, pa
			req.SetAttribute(fmt.Sprintf("f%d", i), 1)
			req.SetAttribute("who", i)
			l.add(devent{K: "pass", F: i, Rq: l.id(req), Rs: l.id(resp), Who: i})
			chain.ProcessFilter(req, resp)
			l.add(devent{K: "ret", F: i})
		}
		if script == "pa" {
			l.add(devent{K: "panic", F: i})
			panic(panicValue(pval, fmt.Sprintf("pa-%d", i)))
		}
		if fwrites {
			b := []byte(fmt.Sprintf("%d>", i))
			l.wcalls++
			l.written.Write(b)
			resp.Write(b)
		}
		l.add(devent{K: "exit", F: i})
	}
}

func payloadBytes(n int) []byte {
	b := make([]byte, n)
	for i := range b {
		b[i] = byte('a' + (i*7+i/13)%26)
	}
	return b
}

var copyMode bool

// unevenMode: writes of a few bytes directly followed by writes of several hundred (what templates and encoders do)
// hijackRefusedMode: the target first tries to take the connection over; the underlying writer refuses, and the
// target answers normally
var unevenMode, hijackRefusedMode bool

type refusingHijacker struct{ http.ResponseWriter }

func (refusingHijacker) Hijack() (net.Conn, *bufio.ReadWriter, error) {
	return nil, nil, errors.New("connection cannot be taken over")
}

func writeChunks(l *reqLog, w io.Writer, payload, chunks int) {
	data := payloadBytes(payload)
	if hijackRefusedMode {
		if resp, ok := w.(*restful.Response); ok {
			if conn, _, err := resp.Hijack(); err == nil && conn != nil {
				conn.Close()
			}
		}
	}
	if unevenMode && !copyMode && len(data) > 8 {
		sizes := []int{5, 700, 3, 511, 512, 1}
		for i, off := 0, 0; off < len(data); i++ {
			end := off + sizes[i%len(sizes)]
			if end > len(data) {
				end = len(data)
			}
			l.wcalls++
			l.written.Write(data[off:end])
			w.Write(data[off:end])
			off = end
		}
		return
	}
	if copyMode {
		if resp, ok := w.(*restful.Response); ok {
			w = resp.ResponseWriter
		}
		if chunks <= 1 {
			l.wcalls++
			l.written.Write(data)
			io.Copy(w, onlyReader{bytes.NewReader(data)})
			return
		}
		// a plain Write first (buffered by a compressor), the rest streamed
		l.wcalls += 2
		l.written.Write(data)
		k := len(data) / 2
		w.Write(data[:k])
		io.Copy(w, onlyReader{bytes.NewReader(data[k:])})
		return
	}
	if chunks <= 0 {
		chunks = 1
	}
	step := (len(data) + chunks - 1) / chunks
	if step == 0 {
		l.wcalls++
		l.written.Write(data)
		w.Write(data)
		return
	}
	for off := 0; off < len(data); off += step {
		end := off + step
		if end > len(data) {
			end = len(data)
		}
		l.wcalls++
		l.written.Write(data[off:end])
		w.Write(data[off:end])
	}
}

type chainWorld struct {
	c    *restful.Container
	prov *ledgerProvider
}

func buildChainContainer(cs chainCase, instrument bool) *restful.Container {
	nAll := cs.Lv[0] + cs.Lv[1] + cs.Lv[2]
	genPanicVal = cs.PanicVal
	c := restful.NewContainer()
	// flipAfter: both run-time switches have the other value while everything is registered
	c.DoNotRecover((!cs.Rec) != cs.FlipAfter)
	defer c.DoNotRecover(!cs.Rec)
	c.EnableContentEncoding(cs.CEnc != cs.FlipAfter)
	defer c.EnableContentEncoding(cs.CEnc)
	if cs.RecStatus > 0 {
		st := cs.RecStatus
		c.RecoverHandler(func(pv interface{}, w http.ResponseWriter) {
			msg := []byte(fmt.Sprintf("recovered:%v", pv))
			if instrument {
				// the request is not reachable from here: the sequential driver keeps it in curLog
				if curLog != nil {
					curLog.add(devent{K: "recover"})
					curLog.written.Write(msg)
				}
			}
			w.WriteHeader(st)
			w.Write(msg)
		})
	}
	c.ServiceErrorHandler(func(err restful.ServiceError, req *restful.Request, resp *restful.Response) {
		if instrument {
			l := logFor(req.Request)
			l.add(devent{K: "target", F: 0, Rq: l.id(req), Rs: l.id(resp), At: seenAttrs(req, req.Request, nAll), Who: whoOf(req)})
			l.wcalls++
			l.written.WriteString(err.Message)
		}
		for header, values := range err.Header {
			for _, value := range values {
				resp.Header().Add(header, value)
			}
		}
		resp.WriteErrorString(err.Code, err.Message)
	})
	script := func(i int) string {
		if i-1 < len(cs.Sc) {
			return cs.Sc[i-1]
		}
		return "pass"
	}
	idx := 0
	for k := 0; k < cs.Lv[0]; k++ {
		idx++
		c.Filter(genFilter(idx, script(idx), cs.FWrites, nAll, ""))
	}
	ws := new(restful.WebService).Path("/s")
	for k := 0; k < cs.Lv[1]; k++ {
		idx++
		ws.Filter(genFilter(idx, script(idx), cs.FWrites, nAll, "sany"))
	}
	target := func(req *restful.Request, resp *restful.Response) {
		l := logFor(req.Request)
		l.add(devent{K: "target", F: 0, Rq: l.id(req), Rs: l.id(resp), At: seenAttrs(req, req.Request, nAll), Who: whoOf(req)})
		if !ownsRequest("s", req.Request) {
			l.add(devent{K: "enter", F: 99})
		}
		if cs.ReadPanic && req.Request.Header.Get("Content-Encoding") == "gzip" {
			var p panicky
			req.ReadEntity(&p) // panics below ReadEntity, while a pooled gzip reader is held
		}
		if cs.Tgt == "panic" {
			l.add(devent{K: "panic", F: 0})
			panic(panicValue(cs.PanicVal, "target-panic"))
		}
		writeChunks(l, resp, cs.Payload, cs.Chunks)
		if cs.Tgt == "panicAfterWrite" {
			l.add(devent{K: "panic", F: 0})
			panic(panicValue(cs.PanicVal, "target-panic-after-write"))
		}
	}
	rb := ws.GET("/r").To(target)
	for k := 0; k < cs.Lv[2]; k++ {
		idx++
		rb.Filter(genFilter(idx, script(idx), cs.FWrites, nAll, "s"))
	}
	switch cs.REnc {
	case "on":
		rb.ContentEncodingEnabled(true)
	case "off":
		rb.ContentEncodingEnabled(false)
	}
	ws.Route(rb.If(func(r *http.Request) bool {
		if r.Header.Get("X-Cond-Panic") != "" {
			if l := logFor(r); l != nil {
				l.add(devent{K: "panic", F: 0})
			}
			panic("target-panic-in-condition")
		}
		return r.Header.Get("X-Alt") == ""
	}))
	ab := ws.GET("/r").If(func(r *http.Request) bool { return r.Header.Get("X-Alt") != "" }).To(func(req *restful.Request, resp *restful.Response) {
		l := logFor(req.Request)
		if !ownsRequest("alt", req.Request) {
			l.add(devent{K: "enter", F: 99})
		}
		l.add(devent{K: "target", F: 0, Rq: l.id(req), Rs: l.id(resp), At: seenAttrs(req, req.Request, nAll), Who: whoOf(req)})
		writeChunks(l, resp, cs.Payload, cs.Chunks)
	})
	aidx := cs.Lv[0] + cs.Lv[1]
	for k := 0; k < cs.Lv[2]; k++ {
		aidx++
		ab.Filter(genFilter(aidx, script(aidx), cs.FWrites, nAll, "alt"))
	}
	switch cs.REnc {
	case "on":
		ab.ContentEncodingEnabled(true)
	case "off":
		ab.ContentEncodingEnabled(false)
	}
	ws.Route(ab)
	if cs.RouteFlip && cs.REnc != "unset" {
		// Routes() hands out copies: changing one is not a change of the registered route, and certainly
		// not of the other route
		for _, rt := range ws.Routes() {
			if len(rt.If) > 0 && rt.Path == "/s/r" {
				probe, _ := http.NewRequest("GET", "/s/r", nil)
				probe.Header.Set("X-Alt", "1")
				if rt.If[0](probe) {
					rt.EnableContentEncoding(cs.REnc != "on")
				}
			}
		}
	}
	ws.Route(ws.GET("/probe").To(func(req *restful.Request, resp *restful.Response) { resp.Write([]byte("probe-ok")) }))
	c.Add(ws)
	// a second service with the same number of service / route filters, but its own
	wt := new(restful.WebService).Path("/t")
	tidx := cs.Lv[0]
	for k := 0; k < cs.Lv[1]; k++ {
		tidx++
		wt.Filter(genFilter(tidx, script(tidx), cs.FWrites, nAll, "t"))
	}
	tb := wt.GET("/r").To(func(req *restful.Request, resp *restful.Response) {
		l := logFor(req.Request)
		if !strings.HasPrefix(req.Request.URL.Path, "/t/") {
			l.add(devent{K: "enter", F: 99})
		}
		l.add(devent{K: "target", F: 0, Rq: l.id(req), Rs: l.id(resp), At: seenAttrs(req, req.Request, nAll), Who: whoOf(req)})
		writeChunks(l, resp, cs.Payload, cs.Chunks)
	})
	for k := 0; k < cs.Lv[2]; k++ {
		tidx++
		tb.Filter(genFilter(tidx, script(tidx), cs.FWrites, nAll, "t"))
	}
	wt.Route(tb)
	c.Add(wt)
	plain := http.HandlerFunc(func(w http.ResponseWriter, r *http.Request) {
		l := logFor(r)
		l.add(devent{K: "target", F: 0, Rq: 0, Rs: 0, At: seenAttrs(nil, r, nAll)})
		if cs.Tgt == "panic" {
			l.add(devent{K: "panic", F: 0})
			panic("target-panic")
		}
		writeChunks(l, w, cs.Payload, cs.Chunks)
		if cs.Tgt == "panicAfterWrite" {
			l.add(devent{K: "panic", F: 0})
			panic("target-panic-after-write")
		}
	})
	c.Handle("/plain/", plain)
	c.HandleWithFilter("/plainf/", plain)
	return c
}

var curLog *reqLog

func chainRequestPath(cs chainCase) (string, string) {
	switch cs.Entry {
	case "H":
		return "GET", "/plain/x"
	case "HF":
		return "GET", "/plainf/x"
	}
	if cs.Routed {
		return "GET", "/s/r"
	}
	if cs.ErrKind == 405 {
		return "POST", "/s/r"
	}
	return "GET", "/s/nope"
}

func decodeBody(ce string, body []byte) (ok bool, data []byte) {
	var rd io.Reader
	var err error
	switch ce {
	case "gzip":
		rd, err = gzip.NewReader(bytes.NewReader(body))
	case "deflate":
		rd, err = zlib.NewReader(bytes.NewReader(body))
	default:
		return true, body
	}
	if err != nil {
		return false, nil
	}
	data, err = io.ReadAll(rd)
	return err == nil, data
}

func nRun(cs chainCase) int {
	switch cs.Entry {
	case "NET":
		if cs.Routed {
			return cs.Lv[0] + cs.Lv[1] + cs.Lv[2]
		}
		return cs.Lv[0]
	case "H":
		return 0
	case "HF":
		return cs.Lv[0]
	}
	if cs.Routed {
		return cs.Lv[0] + cs.Lv[1] + cs.Lv[2]
	}
	return cs.Lv[0]
}

func probeOutcome(c *restful.Container, path string) string {
	hr, _ := buildRequest("GET", path, nil, nil, false)
	rec := httptest.NewRecorder()
	esc := ""
	func() {
		defer func() {
			if pv := recover(); pv != nil {
				esc = fmt.Sprint(pv)
			}
		}()
		c.Dispatch(rec, hr)
	}()
	return fmt.Sprintf("%d|%s|%s", rec.Code, rec.Body.String(), esc)
}

func runChainCase(tw *traceWriter, cs chainCase, rid *int) {
	if cs.Entry == "" {
		cs.Entry = "D"
	}
	cs.Sc = nonNil(cs.Sc)
	if cs.Enc {
		cs.CEnc, cs.AE = true, "gzip"
	}
	if cs.REnc == "" {
		cs.REnc = "unset"
	}
	if cs.ErrKind == 0 {
		cs.ErrKind = 404
	}
	if cs.Payload == 0 && cs.Chunks == 0 {
		cs.Payload, cs.Chunks = 40, 2
	}
	prov := &ledgerProvider{inner: makeProvider(cs.Provider), ids: map[interface{}]int{}, trap: true, readerKinds: true}
	restful.SetCompressorProvider(prov)
	defer restful.SetCompressorProvider(restful.NewSyncPoolCompessors())
	c := buildChainContainer(cs, true)
	twin := buildChainContainer(cs, false)
	method, path := chainRequestPath(cs)
	routedLike := cs.Routed && (cs.Entry == "D" || cs.Entry == "S" || cs.Entry == "NET")
	// two requests in sequence on the same container (fresh chain, pool reuse)
	prevPanicked := false
	for rep := 0; rep < 2; rep++ {
		*rid++
		id := fmt.Sprint(*rid)
		l := newReqLog()
		logsMu.Lock()
		logs[id] = l
		logsMu.Unlock()
		curLog = l
		prov.mu.Lock()
		prov.cur = l
		prov.mu.Unlock()
		altHdr := ""
		if cs.Alt && rep == 1 && routedLike {
			altHdr = "1" // same method and path, the other route (chosen by a condition)
		}
		condHdr := ""
		if cs.CondPanic && rep == 0 && routedLike {
			condHdr = "1"
		}
		copyMode = cs.Copy
		unevenMode, hijackRefusedMode = cs.Uneven, cs.HijackNo && cs.Entry != "NET" // (a real connection can be taken over)
		hdrs := [][2]string{{"X-Rid", id}, {"Accept-Encoding", cs.AE}, {"X-Alt", altHdr}, {"X-Cond-Panic", condHdr}, {"Origin", cs.Origin}}
		var reqBody []byte
		if cs.ReadPanic && routedLike && cs.Entry != "NET" {
			reqBody = gzipBytes([]byte(`{"x":1}`))
			hdrs = append(hdrs, [2]string{"Content-Encoding", "gzip"}, [2]string{"Content-Type", "application/json"})
		}
		hr, err := buildRequest(method, path, hdrs, reqBody, false)
		if err != nil {
			fatal("bad request: %v", err)
		}
		rec := httptest.NewRecorder()
		if cs.PreCE != "" {
			rec.Header().Set("Content-Encoding", cs.PreCE)
		}
		var out http.ResponseWriter = rec
		if cs.Copy {
			out = readFromRecorder{rec}
		}
		if cs.HijackNo && cs.Entry != "NET" {
			out = refusingHijacker{out}
		}
		var fw *countingWriter
		if cs.FailAt > 0 {
			fw = &countingWriter{hdr: rec.Header(), budget: cs.FailAt}
			out = fw
		}
		var pv interface{}
		var netResp *http.Response
		var netBody []byte
		if cs.Entry == "NET" {
			// a real net/http server and client (no transparent decompression) in between
			srv := httptest.NewServer(c)
			creq, _ := http.NewRequest(method, srv.URL+path, nil)
			creq.Header.Set("X-Rid", id)
			if cs.AE != "" {
				creq.Header.Set("Accept-Encoding", cs.AE)
			}
			if altHdr != "" {
				creq.Header.Set("X-Alt", altHdr)
			}
			if cs.Origin != "" {
				creq.Header.Set("Origin", cs.Origin)
			}
			cl := &http.Client{Transport: &http.Transport{DisableCompression: true}}
			if resp, err := cl.Do(creq); err == nil {
				netResp = resp
				netBody, _ = io.ReadAll(resp.Body)
				resp.Body.Close()
			}
			cl.CloseIdleConnections()
			srv.Close()
		} else {
			func() {
				defer func() { pv = recover() }()
				switch {
				case cs.Entry == "D":
					c.Dispatch(out, hr)
				case cs.Entry == "S" && cs.Nested:
					// a container is an http.Handler: mounted below another container it must behave as on its own
					outer := restful.NewContainer()
					outer.EnableContentEncoding(cs.CEnc)
					outer.Filter(func(rq *restful.Request, rs *restful.Response, ch *restful.FilterChain) { ch.ProcessFilter(rq, rs) })
					outer.HandleWithFilter("/", c)
					outer.ServeHTTP(out, hr)
				default:
					c.ServeHTTP(out, hr)
				}
			}()
		}
		prov.mu.Lock()
		prov.cur = nil
		prov.mu.Unlock()
		curLog = nil
		body := rec.Body.Bytes()
		ce := wireHeader(rec).Get("Content-Encoding")
		if cs.Entry == "NET" {
			if netResp == nil {
				fatal("no response from the test server")
			}
			body, ce = netBody, netResp.Header.Get("Content-Encoding")
			rec.Code = netResp.StatusCode
		}
		dce := ce
		if cs.PreCE != "" {
			dce = "" // the container must not have encoded: the body is taken as is
		}
		decOK, decoded := decodeBody(dce, body)
		// default recover handler: not instrumented; recognise its output
		wknown := true
		nrecDefault := 0
		if cs.RecStatus == 0 {
			text := body
			if decOK {
				text = decoded
			}
			nrecDefault = bytes.Count(text, []byte("recover from panic situation"))
			if nrecDefault > 0 {
				wknown = false
			}
		}
		nExp := nRun(cs)
		if condHdr != "" {
			nExp = 0 // selection panics: no filter runs
		}
		tw.emit(map[string]interface{}{"e": "dreq", "rid": *rid, "n": nExp, "rec": cs.Rec, "case": cs, "rep": rep})
		nacq, nrel := 0, 0
		wroteBeforePanic := false
		for _, e := range l.evs {
			if e.K == "acq" {
				nacq++
			}
			if e.K == "rel" {
				nrel++
			}
			tw.emit(map[string]interface{}{"e": "dev", "k": e.K, "f": e.F, "rq": e.Rq, "rs": e.Rs, "at": e.At, "who": e.Who})
		}
		for k := 0; k < nrecDefault; k++ {
			tw.emit(map[string]interface{}{"e": "dev", "k": "recover", "f": 0, "rq": 0, "rs": 0, "at": []int{}, "who": 0})
		}
		_ = wroteBeforePanic
		esc := 0
		escEq := true
		if pv != nil {
			esc = 1
			escEq = isPanicValue(pv)
		}
		// what had been written through the Response before the recover handler wrote
		wr := l.written.Bytes()
		wroteBefore := l.wcalls > 0
		// follow-ups: probes on this container and on a never-panicked twin; Add under watchdog
		probesEq := probeOutcome(c, "/s/probe") == probeOutcome(twin, "/s/probe") &&
			probeOutcome(c, "/s/none") == probeOutcome(twin, "/s/none")
		addDone := true
		if rep == 1 {
			done := make(chan bool, 1)
			go func() {
				defer func() { recover(); done <- true }()
				nws := new(restful.WebService).Path("/late")
				nws.Route(nws.GET("/x").To(func(*restful.Request, *restful.Response) {}))
				c.Add(nws)
			}()
			select {
			case <-done:
			case <-time.After(15 * time.Second): // (generous: a loaded machine must not look like a deadlock)
				addDone = false
			}
		}
		decodedEq := decOK && bytes.Equal(decoded, wr)
		bodyEq := bytes.Equal(body, wr)
		if !wknown {
			decodedEq, bodyEq = decOK, true
		}
		status := rec.Code
		if fw != nil {
			// the client went away: what arrived is unknown, only the bookkeeping (ledger) is judged
			decOK, decodedEq, bodyEq = true, true, true
			status = fw.status
			if status == 0 {
				status = 200
			}
		}
		obs := map[string]interface{}{"entry": cs.Entry, "cEnc": cs.CEnc, "rEnc": cs.REnc, "routed": routedLike, "ae": cs.AE,
			"preCE": cs.PreCE, "ce": ce, "acq": nacq, "rel": nrel, "decodeOK": decOK, "decodedEq": decodedEq, "bodyEq": bodyEq,
			"status": status, "wroteBefore": wroteBefore || fw != nil, "recStatus": cs.RecStatus, "wknown": wknown, "len": len(wr)}
		tw.emit(map[string]interface{}{"e": "dend", "esc": esc, "escEq": escEq, "obs": obs, "probesEq": probesEq, "addDone": addDone, "prevPanicked": prevPanicked})
		prevPanicked = false
		for _, e := range l.evs {
			if e.K == "panic" {
				prevPanicked = true
			}
		}
		logsMu.Lock()
		delete(logs, id)
		logsMu.Unlock()
	}
}

// concurrent freshness (C06): G goroutines send the same request to one container
func runChainConc(tw *traceWriter, cs chainCase, rid *int) {
	cs.Entry, cs.REnc, cs.CEnc, cs.AE, cs.Tgt = "D", "unset", false, "", "ok"
	cs.Sc = nonNil(cs.Sc)
	if cs.Payload == 0 {
		cs.Payload, cs.Chunks = 16, 1
	}
	c := buildChainContainer(cs, true)
	method, path := chainRequestPath(cs)
	type res struct {
		id  int
		l   *reqLog
		esc bool
	}
	var wg sync.WaitGroup
	results := make([]res, cs.Conc*4)
	start := make(chan struct{})
	for g := 0; g < cs.Conc; g++ {
		for k := 0; k < 4; k++ {
			*rid++
			slot := g*4 + k
			results[slot] = res{id: *rid, l: newReqLog()}
			logsMu.Lock()
			logs[fmt.Sprint(*rid)] = results[slot].l
			logsMu.Unlock()
		}
		wg.Add(1)
		go func(g int) {
			defer wg.Done()
			<-start
			for k := 0; k < 4; k++ {
				slot := g*4 + k
				p := path
				if cs.Routed && (g+k)%2 == 1 {
					p = "/t/r" // the other service: same chain shape, different filters
				}
				hr, _ := buildRequest(method, p, [][2]string{{"X-Rid", fmt.Sprint(results[slot].id)}}, nil, false)
				rec := httptest.NewRecorder()
				func() {
					defer func() {
						if recover() != nil {
							results[slot].esc = true
						}
					}()
					c.Dispatch(rec, hr)
				}()
			}
		}(g)
	}
	close(start)
	wg.Wait()
	for _, r := range results {
		tw.emit(map[string]interface{}{"e": "dreq", "rid": r.id, "n": nRun(cs), "rec": cs.Rec, "case": cs, "rep": 0})
		for _, e := range r.l.evs {
			tw.emit(map[string]interface{}{"e": "dev", "k": e.K, "f": e.F, "rq": e.Rq, "rs": e.Rs, "at": e.At, "who": e.Who})
		}
		esc := 0
		if r.esc {
			esc = 1
		}
		tw.emit(map[string]interface{}{"e": "dend", "esc": esc, "escEq": true, "obs": map[string]interface{}{"entry": "conc"}, "probesEq": true, "addDone": true, "prevPanicked": false})
		logsMu.Lock()
		delete(logs, fmt.Sprint(r.id))
		logsMu.Unlock()
	}
}

func randomChainCase(r *rand.Rand, mode string) chainCase {
	cs := chainCase{Lv: [3]int{r.Intn(4), r.Intn(4), r.Intn(3)}, Tgt: "ok", Routed: r.Intn(5) > 0, Rec: r.Intn(2) == 0,
		Entry: pick(r, []string{"D", "D", "S", "S", "HF", "H"}), REnc: "unset", Provider: pick(r, []string{"pool", "cache0", "cache1", "cache2"}),
		ErrKind: []int{404, 405}[r.Intn(2)], FWrites: r.Intn(3) == 0}
	if mode == "chain" {
		cs.Lv = [3]int{r.Intn(6), r.Intn(6), r.Intn(6)}
	}
	n := cs.Lv[0] + cs.Lv[1] + cs.Lv[2]
	scripts := []string{"pass", "pass", "pass", "pass", "replace", "mw", "stop", "cors"}
	if mode == "panic" {
		scripts = []string{"pass", "pass", "pass", "pass", "pass", "replace", "mw", "stop", "pb", "pa", "cors"}
		cs.PanicVal = pick(r, []string{"", "", "", "abort", "err", "int"})
	}
	cs.Origin = pick(r, []string{"", "http://allowed.example", "http://evil.example", "null"})
	cs.Nested = cs.Entry == "S" && r.Intn(3) == 0
	faults := 0
	for i := 0; i < n; i++ {
		s := pick(r, scripts)
		if s == "pb" || s == "pa" || s == "stop" {
			if faults > 0 {
				s = "pass"
			}
			faults++
		}
		cs.Sc = append(cs.Sc, s)
	}
	if mode == "panic" && r.Intn(3) == 0 {
		cs.Tgt = pick(r, []string{"panic", "panicAfterWrite"})
	}
	if mode == "panic" || mode == "enc" {
		cs.CEnc = r.Intn(3) > 0
		cs.REnc = pick(r, []string{"unset", "unset", "on", "off"})
		cs.AE = pick(r, []string{"", "gzip", "deflate", "gzip, deflate", "deflate, gzip", "identity", "br", "gzip;q=0.5", "x-gzip"})
		if r.Intn(6) == 0 {
			cs.PreCE = pick(r, []string{"gzip", "br"})
		}
		cs.Payload = []int{0, 1, 11, 300, 5000, 70000, 1 << 20}[r.Intn(7)]
		if mode == "panic" && cs.Payload > 5000 {
			cs.Payload = 300
		}
		cs.Chunks = []int{1, 1, 3, 17}[r.Intn(4)]
		if r.Intn(2) == 0 {
			cs.RecStatus = []int{500, 503, 418}[r.Intn(3)]
		}
	} else {
		cs.Payload, cs.Chunks = 20, 2
	}
	if mode == "chain" && r.Intn(4) == 0 {
		cs.Conc = 8
	}
	cs.Alt = r.Intn(3) == 0
	if mode == "panic" && r.Intn(6) == 0 {
		// the panic comes from below Request.ReadEntity (the target does not panic by itself)
		cs.ReadPanic, cs.Tgt, cs.Alt = true, "ok", false
		for i := range cs.Sc {
			if cs.Sc[i] == "pb" || cs.Sc[i] == "pa" || cs.Sc[i] == "stop" {
				cs.Sc[i] = "pass"
			}
		}
	}
	if mode == "panic" {
		// a buffering filter somewhere: nothing may be written below it before the panic (the bytes would stay in its buffer)
		if k := r.Intn(2 * (n + 1)); k < n && cs.Sc[k] == "pass" && !cs.ReadPanic {
			cs.Sc[k] = "buffer"
			cs.FWrites = false
			if cs.Tgt == "panicAfterWrite" {
				cs.Tgt = "panic"
			}
			for i := range cs.Sc {
				if cs.Sc[i] == "pa" {
					cs.Sc[i] = "pb"
				}
			}
		}
	}
	if mode == "panic" && r.Intn(8) == 0 && !cs.ReadPanic {
		cs.CondPanic = true
		for i := range cs.Sc {
			if cs.Sc[i] == "pb" || cs.Sc[i] == "pa" || cs.Sc[i] == "stop" {
				cs.Sc[i] = "pass"
			}
		}
		cs.Tgt = "ok"
	}
	if mode == "enc" && r.Intn(8) == 0 && cs.PreCE == "" {
		// through a real server: no panics (the server would swallow them), no pre-set header
		cs.Entry, cs.Tgt, cs.Rec = "NET", "ok", true
		for i := range cs.Sc {
			if cs.Sc[i] == "pb" || cs.Sc[i] == "pa" {
				cs.Sc[i] = "pass"
			}
		}
		if cs.Payload > 70000 {
			cs.Payload = 70000
		}
	}
	if mode == "panic" {
		cs.FlipAfter = r.Intn(3) == 0
	}
	if mode == "enc" {
		cs.Uneven = r.Intn(4) == 0
		if cs.Uneven && cs.Payload < 2000 {
			cs.Payload = 2000 + r.Intn(3000)
		}
		cs.HijackNo = r.Intn(5) == 0
		cs.Copy = r.Intn(4) == 0
		cs.RouteFlip = cs.REnc != "unset" && r.Intn(2) == 0
		cs.FlipAfter = r.Intn(3) == 0
		if r.Intn(6) == 0 {
			cs.FailAt = 1 + r.Intn(40)
		}
	}
	return cs
}

func runChain(planPath, outPath string, seed int64) {
	var p chainPlan
	readJSONFile(planPath, &p)
	r := rand.New(rand.NewSource(seed))
	restful.SetLogger(discardLogger{})
	restful.EnableTracing(false)
	tw := newTraceWriter(outPath)
	defer tw.close()
	rid := 0
	cases := p.Cases
	for i := 0; i < p.Random; i++ {
		cases = append(cases, randomChainCase(r, p.Mode))
	}
	for _, cs := range cases {
		if cs.Conc > 0 {
			runChainConc(tw, cs, &rid)
		} else {
			runChainCase(tw, cs, &rid)
		}
	}
}

package main

// Routing family driver (C01-C04, C14, C17, C18): builds real containers from table
// descriptions (every router / registration-order / entry-point variant), sends real
// requests parsed from wire bytes, and logs every distinct observed outcome.

import (
	"context"
	"encoding/json"
	"fmt"
	"math/rand"
	"net/http"
	"net/http/httptest"
	"strings"
	"sync"
	"sync/atomic"

	restful "github.com/emicklei/go-restful/v3"
)

type routeSpec struct {
	M     string   `json:"m"`
	P     string   `json:"p"`
	Cons  []string `json:"cons"`
	Prod  []string `json:"prod"`
	Conds []int    `json:"conds"`
	Noct  []string `json:"noct"`
}

type serviceSpec struct {
	Root   string      `json:"root"`
	Routes []routeSpec `json:"routes"`
	WProd  []string    `json:"wprod"` // WebService.Produces: default for routes without their own
	WCons  []string    `json:"wcons"`
}

type tableCase struct {
	Services []serviceSpec `json:"services"`
	Reqs     []reqSpec     `json:"reqs"`
	Routers  []string      `json:"routers"` // empty: decided from the template forms
	Options  bool          `json:"options"` // also probe the OPTIONS filter (C17)
	// Fixed: the per-table build dimensions are given (replay of one table) instead of derived from its position
	Fixed      bool `json:"fixed"`
	WithFilter bool `json:"withFilter"`
	Flavour    int  `json:"flavour"`
	Switched   bool `json:"switched"`
	Swap       bool `json:"swap"`
	DefRoot    bool `json:"defRoot"`
}

type routePlan struct {
	Tables     []tableCase `json:"tables"`
	Perms      int         `json:"perms"`   // number of extra registration orders per table
	Slash      bool        `json:"slash"`   // also send path+"/" twins
	Entries    []string    `json:"entries"` // "D" (Dispatch), "S" (ServeHTTP)
	Random     int         `json:"random"`  // number of random tables to add
	ReqsPer    int         `json:"reqsPer"` // random requests per random table
	Profile    string      `json:"profile"` // generator profile: mixed | common | slash | order | headers | allow
	Tracing    bool        `json:"tracing"` // run with trace logging enabled (discarding logger)
	OptionsAll bool        `json:"optionsAll"`
	Conc       int         `json:"conc"` // > 0: additionally send every request of a table from that many goroutines at once
	Late       bool        `json:"late"` // a route is added after a first round of requests (one spelling each) was served
	Universe   []string    `json:"universe"`
	DefReqCT   string      `json:"defReqCT"` // restful.DefaultRequestContentType(...) is set while the requests are served
	Decoy      bool        `json:"decoy"`    // a decoy WebService is added first and removed before the requests are served
	// the OPTIONS filter is asked about every path p and about p/
	SlashOptions bool `json:"slashOptions"`
}

type hit struct {
	ws, rt int
	params map[string]string
	selp   string
	selm   string
}

type obsCell struct {
	mu  sync.Mutex
	ran []hit
}

var (
	cellMu  sync.Mutex
	cellMap = map[string]*obsCell{}
	ridSeq  int64
)

func cellFor(r *http.Request) *obsCell {
	cellMu.Lock()
	defer cellMu.Unlock()
	if c, ok := cellMap[r.Header.Get("X-Rid")]; ok {
		return c
	}
	return &obsCell{}
}

type outRec struct {
	K      string          `json:"k"`
	Ws     int             `json:"ws"`
	Rt     int             `json:"rt"`
	Params [][2]string     `json:"params"`
	St     int             `json:"st"`
	Allow  []string        `json:"allow"`
	Ran    int             `json:"ran"`
	Selp   string          `json:"selp"`
	Selm   string          `json:"selm"`
	Pv     string          `json:"pv"`
	Vs     [][]interface{} `json:"vs"`
}

type builtVariant struct {
	router string
	perm   int
	c      *restful.Container
}

func jsr311Documented(t tableCase) bool {
	for _, s := range t.Services {
		for _, tok := range strings.Split(s.Root, "/") {
			if !jsrTok(tok) {
				return false
			}
		}
		for _, r := range s.Routes {
			for _, tok := range strings.Split(r.P, "/") {
				if !jsrTok(tok) {
					return false
				}
			}
		}
	}
	return true
}

// literal, {v}, {v:regex}, {v:*}: no prefix/suffix around a variable, no custom verb
func jsrTok(tok string) bool {
	if !strings.Contains(tok, "{") {
		return !strings.Contains(tok, ":")
	}
	return strings.HasPrefix(tok, "{") && strings.HasSuffix(tok, "}") && strings.Count(tok, "{") >= 1 &&
		!strings.Contains(tok[strings.LastIndex(tok, "}"):], ":")
}

// withFilter: a pass-through container filter (dispatch composes a filter chain instead of calling the
// route function directly); filterFlavour 1: a native filter, 2: a net/http middleware wrapped by
// HttpMiddlewareHandlerToFilter that hands a derived *http.Request on (r.WithContext)
var withFilter bool
var filterFlavour int

// switchRouterFirst: the container was first given the other router, then the wanted one
var switchRouterFirst bool

// decoyRoot != "": a WebService with this root is added before all others and removed again before any request
var decoyRoot string

type ctxKey struct{}

// dynamicTables: WebServices are built with dynamic routes enabled (routes change after registration)
var dynamicTables bool

// holdBack: the last route of the first service is not registered when the container is built but
// later, after some requests were served (lateAdders[container] registers it)
var holdBack bool

// swapLate: a placeholder route is registered in place of the held back one and replaced by it later
var swapLate bool
var lateAdders = map[*restful.Container]func(){}

// defaultRootDim: WebServices on "/" are built without a Path() call
var defaultRootDim bool

func buildContainer(t tableCase, router string, order [][2]int, cell **obsCell) (c *restful.Container, addPanic string) {
	defer func() {
		if pv := recover(); pv != nil {
			addPanic = fmt.Sprint(pv)
			if len(addPanic) > 120 {
				addPanic = addPanic[:120]
			}
		}
	}()
	c = restful.NewContainer()
	if switchRouterFirst {
		if router == "jsr311" {
			c.Router(restful.CurlyRouter{})
		} else {
			c.Router(restful.RouterJSR311{})
		}
	}
	if router == "jsr311" {
		c.Router(restful.RouterJSR311{})
	} else {
		c.Router(restful.CurlyRouter{})
	}
	if withFilter && filterFlavour == 2 {
		c.Filter(restful.HttpMiddlewareHandlerToFilter(func(next http.Handler) http.Handler {
			return http.HandlerFunc(func(w http.ResponseWriter, r *http.Request) {
				next.ServeHTTP(w, r.WithContext(context.WithValue(r.Context(), ctxKey{}, 1)))
			})
		}))
	} else if withFilter && filterFlavour == 3 {
		// a middleware that rewrites the URL of the request it passes on (http.StripPrefix does): the route was selected for,
		// and its parameters stand for, the path the client asked for
		c.Filter(restful.HttpMiddlewareHandlerToFilter(func(next http.Handler) http.Handler {
			return http.HandlerFunc(func(w http.ResponseWriter, r *http.Request) {
				r2 := r.Clone(r.Context())
				r2.URL.Path = "/zz/rewritten/by/a/filter"
				next.ServeHTTP(w, r2)
			})
		}))
	} else if withFilter {
		c.Filter(func(req *restful.Request, resp *restful.Response, chain *restful.FilterChain) {
			chain.ProcessFilter(req, resp)
		})
	}
	var decoy *restful.WebService
	if decoyRoot != "" {
		decoy = new(restful.WebService).Path(decoyRoot)
		decoy.Route(decoy.GET("").To(func(req *restful.Request, resp *restful.Response) {}))
		c.Add(decoy)
	}
	// order: sequence of (ws index, route index) in registration order; services are added
	// in order of first appearance
	added := map[int]*restful.WebService{}
	seq := []int{}
	for _, wr := range order {
		wi, ri := wr[0], wr[1]
		ws, ok := added[wi]
		if !ok {
			ws = new(restful.WebService)
			if !(defaultRootDim && t.Services[wi].Root == "/") {
				// (a WebService whose root path is never set has the default root "/")
				ws.Path(t.Services[wi].Root)
			}
			ws.SetDynamicRoutes(dynamicTables)
			if len(t.Services[wi].WProd) > 0 {
				ws.Produces(t.Services[wi].WProd...)
			}
			if len(t.Services[wi].WCons) > 0 {
				ws.Consumes(t.Services[wi].WCons...)
			}
			added[wi] = ws
			seq = append(seq, wi)
		}
		if ri < 0 {
			continue
		}
		rs := t.Services[wi].Routes[ri]
		wcopy, rcopy := wi, ri
		rb := ws.Method(rs.M).Path(rs.P).To(func(req *restful.Request, resp *restful.Response) {
			if nest := req.Request.Header.Get("X-Nest"); nest != "" {
				// a handler that dispatches a sub-request on the same container before it looks at
				// its own request (batch endpoints do this)
				if parts := strings.SplitN(nest, " ", 2); len(parts) == 2 {
					if hr2, err := buildRequest(parts[0], parts[1], nil, nil, false); err == nil {
						safely(func() { c.Dispatch(httptest.NewRecorder(), hr2) })
					}
				}
			}
			h := hit{ws: wcopy + 1, rt: rcopy + 1, params: map[string]string{}, selp: req.SelectedRoutePath()}
			for k, v := range req.PathParameters() {
				h.params[k] = v
			}
			if sr := req.SelectedRoute(); sr != nil {
				h.selm = sr.Method()
			}
			oc := cellFor(req.Request)
			oc.mu.Lock()
			oc.ran = append(oc.ran, h)
			oc.mu.Unlock()
			resp.WriteHeader(http.StatusOK)
		})
		if len(rs.Cons) > 0 {
			rb.Consumes(rs.Cons...)
		}
		if len(rs.Prod) > 0 {
			rb.Produces(rs.Prod...)
		}
		for _, k := range rs.Conds {
			rb.If(condFn(k))
		}
		if len(rs.Noct) > 0 {
			rb.AllowedMethodsWithoutContentType(rs.Noct)
		}
		if holdBack && wi == 0 && ri == len(t.Services[0].Routes)-1 && len(t.Services[0].Routes) >= 2 {
			wsLate, rbLate := ws, rb
			if swapLate {
				// a placeholder stands in for the held back route: the route count does not change when it is replaced
				ws.Route(ws.Method("GET").Path("/zz-placeholder-9").To(func(req *restful.Request, resp *restful.Response) {}))
				lateAdders[c] = func() {
					for _, rt := range wsLate.Routes() {
						if strings.HasSuffix(rt.Path, "/zz-placeholder-9") {
							wsLate.RemoveRoute(rt.Path, "GET")
						}
					}
					wsLate.Route(rbLate)
				}
				continue
			}
			lateAdders[c] = func() { wsLate.Route(rbLate) }
			continue
		}
		ws.Route(rb)
	}
	for _, wi := range seq {
		c.Add(added[wi])
	}
	if decoy != nil {
		c.Remove(decoy)
	}
	return c, ""
}

// builtOffQualifies: templates for which declaring them under either strategy gives the same route table (no root or route
// path with a trailing slash, which path.Join would clean away)
func builtOffQualifies(t tableCase) bool {
	for _, s := range t.Services {
		if len(s.Root) > 1 && strings.HasSuffix(s.Root, "/") {
			return false
		}
		for _, rt := range s.Routes {
			if strings.HasSuffix(rt.P, "/") || strings.Contains(rt.P, "//") || strings.Contains(s.Root, "//") || !strings.HasPrefix(rt.P, "/") {
				return false
			}
		}
	}
	return true
}

// serviceOrder: the WebService indices (1-based) of a registration order, in order of first appearance
func serviceOrder(order [][2]int) []int {
	seq := []int{}
	seen := map[int]bool{}
	for _, wr := range order {
		if !seen[wr[0]] {
			seen[wr[0]] = true
			seq = append(seq, wr[0]+1)
		}
	}
	return seq
}

// decoyFor: a root path that shares its fixed ServeMux prefix with the table's first literal-rooted service
func decoyFor(t tableCase) string {
	for _, s := range t.Services {
		root := strings.TrimRight(s.Root, "/")
		if root != "" && !strings.Contains(root, "{") {
			return root + "/{zzdecoy}/zzdecoy"
		}
	}
	return ""
}

// registration orders: perm 0 is the table's own order; others shuffle services and the
// routes inside each service
func registrationOrder(t tableCase, r *rand.Rand, identity bool) [][2]int {
	wsIdx := make([]int, len(t.Services))
	for i := range wsIdx {
		wsIdx[i] = i
	}
	if !identity {
		r.Shuffle(len(wsIdx), func(i, j int) { wsIdx[i], wsIdx[j] = wsIdx[j], wsIdx[i] })
	}
	order := [][2]int{}
	for _, wi := range wsIdx {
		n := len(t.Services[wi].Routes)
		ri := make([]int, n)
		for i := range ri {
			ri[i] = i
		}
		if !identity {
			r.Shuffle(n, func(i, j int) { ri[i], ri[j] = ri[j], ri[i] })
		}
		if n == 0 {
			order = append(order, [2]int{wi, -1})
		}
		for _, x := range ri {
			order = append(order, [2]int{wi, x})
		}
	}
	return order
}

func reverseOrder(t tableCase) [][2]int {
	order := [][2]int{}
	for wi := len(t.Services) - 1; wi >= 0; wi-- {
		n := len(t.Services[wi].Routes)
		if n == 0 {
			order = append(order, [2]int{wi, -1})
		}
		for ri := n - 1; ri >= 0; ri-- {
			order = append(order, [2]int{wi, ri})
		}
	}
	return order
}

func (rs reqSpec) httpRequest(extraSlash bool) (*http.Request, error) {
	path := rs.Path
	if rs.Opaque {
		path = rs.Raw
	}
	if extraSlash {
		path += "/"
	}
	if rs.EscSlash > 0 && !rs.Opaque {
		n := 0
		for i := 0; i < len(path); i++ {
			if path[i] == '/' {
				n++
				if n == rs.EscSlash && i > 0 {
					path = path[:i] + "\x00" + path[i+1:]
					break
				}
			}
		}
	}
	hdr := [][2]string{{"Content-Type", rs.CT}, {"Accept", rs.Acc}, {"X-Cond", condHeader(rs.Conds)}, {"X-Cond-Panic", condHeader(rs.CPanic)}}
	for k, v := range rs.Hdr {
		hdr = append(hdr, [2]string{k, v})
	}
	var body []byte
	if rs.Clen > 0 {
		body = rs.Body
		if len(body) != rs.Clen {
			body = []byte(strings.Repeat("x", rs.Clen))
		}
	}
	return buildRequest(rs.M, path, hdr, body, rs.Clh == "0")
}

func observe(c *restful.Container, entry string, hr *http.Request, cell **obsCell) outRec {
	mine := &obsCell{}
	*cell = mine
	rid := fmt.Sprint(atomic.AddInt64(&ridSeq, 1))
	hr.Header.Set("X-Rid", rid)
	cellMu.Lock()
	cellMap[rid] = mine
	cellMu.Unlock()
	defer func() {
		cellMu.Lock()
		delete(cellMap, rid)
		cellMu.Unlock()
	}()
	rec := httptest.NewRecorder()
	var pv interface{}
	func() {
		defer func() { pv = recover() }()
		if entry == "S" {
			c.ServeHTTP(rec, hr)
		} else {
			c.Dispatch(rec, hr)
		}
	}()
	o := outRec{Params: [][2]string{}, Allow: []string{}}
	ran := mine.ran
	if pv != nil {
		o.K = "panic"
		o.Pv = fmt.Sprint(pv)
		if len(o.Pv) > 80 {
			o.Pv = o.Pv[:80]
		}
		o.Ran = len(ran)
		return o
	}
	o.Ran = len(ran)
	if len(ran) > 0 {
		h := ran[0]
		o.K, o.Ws, o.Rt, o.Selp, o.Selm = "route", h.ws, h.rt, h.selp, h.selm
		o.Params = sortedPairs(h.params)
		o.St = rec.Code
		return o
	}
	o.K, o.St = "err", rec.Code
	if rec.Code == 405 {
		o.Allow = splitList(wireHeader(rec).Get("Allow"))
	}
	if entry == "S" && (rec.Code == 301 || rec.Code == 307 || rec.Code == 308) {
		o.K = "redirect"
	}
	return o
}

func runRoute(planPath, outPath string, seed int64) {
	var p routePlan
	readJSONFile(planPath, &p)
	r := rand.New(rand.NewSource(seed))
	restful.SetLogger(discardLogger{})
	if p.Tracing {
		restful.TraceLogger(discardLogger{})
	} else {
		restful.EnableTracing(false)
	}
	if len(p.Entries) == 0 {
		p.Entries = []string{"D"}
	}
	tables := p.Tables
	for i := 0; i < p.Random; i++ {
		tables = append(tables, randomTable(r, p.Profile, p.ReqsPer))
	}
	tw := newTraceWriter(outPath)
	defer tw.close()
	for ti, t := range tables {
		routers := t.Routers
		if len(routers) == 0 {
			routers = []string{"curly"}
			if jsr311Documented(t) {
				routers = append(routers, "jsr311")
			}
		}
		for si := range t.Services {
			t.Services[si].WProd, t.Services[si].WCons = nonNil(t.Services[si].WProd), nonNil(t.Services[si].WCons)
			for ri := range t.Services[si].Routes {
				rt := &t.Services[si].Routes[ri]
				rt.Cons, rt.Prod, rt.Conds, rt.Noct = nonNil(rt.Cons), nonNil(rt.Prod), nonNilI(rt.Conds), nonNil(rt.Noct)
			}
		}
		withFilter = ti%2 == 1
		filterFlavour = 1 + (ti/2)%3
		switchRouterFirst = (ti/4)%2 == 1
		defaultRootDim = ti%3 != 0
		swapDim := ti%2 == 0
		if t.Fixed {
			withFilter, filterFlavour, switchRouterFirst, swapDim, defaultRootDim = t.WithFilter, t.Flavour, t.Switched, t.Swap, t.DefRoot
		}
		decoyRoot = ""
		if p.Decoy {
			decoyRoot = decoyFor(t)
		}
		var cell *obsCell
		variants := []builtVariant{}
		orders := [][][2]int{registrationOrder(t, r, true)}
		if p.Perms > 0 {
			orders = append(orders, reverseOrder(t))
		}
		for k := 1; k < p.Perms; k++ {
			orders = append(orders, registrationOrder(t, r, false))
		}
		svcOrders := [][]int{}
		for _, o := range orders {
			svcOrders = append(svcOrders, serviceOrder(o))
		}
		tw.emit(map[string]interface{}{"e": "table", "tid": ti + 1, "services": t.Services, "routers": routers, "withFilter": withFilter,
			"flavour": filterFlavour, "switched": switchRouterFirst, "swap": swapDim, "defRoot": defaultRootDim, "decoy": decoyRoot, "orders": svcOrders})
		// every template of the table was compiled once before while the trailing-slash switch had the other
		// value (the switch is a run-time package variable; nothing may be remembered across it)
		restful.TrimRightSlashEnabled = false
		if pc, ap := buildContainer(t, routers[0], orders[0], &cell); ap == "" && len(t.Reqs) > 0 {
			if hr, err := t.Reqs[0].httpRequest(false); err == nil {
				observe(pc, "D", hr, &cell)
			}
		}
		restful.TrimRightSlashEnabled = true
		addPanic := ""
		// Route() may be called on a registered WebService at any time; RemoveRoute needs dynamic routes
		holdBack, dynamicTables = p.Late, p.Late && swapDim
		swapLate = p.Late && swapDim
		for _, router := range routers {
			for pi, ord := range orders {
				c, ap := buildContainer(t, router, ord, &cell)
				if ap != "" {
					addPanic = ap
					continue
				}
				variants = append(variants, builtVariant{router, pi, c})
			}
		}
		holdBack, dynamicTables = false, false
		if p.Slash && builtOffQualifies(t) {
			// the table was declared while the trailing-slash switch was off (another part of the program, or a test, had
			// it so) and is served with the default strategy: variant 90 of the default router
			restful.TrimRightSlashEnabled = false
			c90, ap := buildContainer(t, "curly", orders[0], &cell)
			restful.TrimRightSlashEnabled = true
			if ap == "" {
				variants = append(variants, builtVariant{"curly", 90, c90})
			}
		}
		restful.DefaultRequestContentType(p.DefReqCT)
		if p.Late {
			// one spelling of every request (alternating) is served by the incomplete table, then the held
			// back route is registered; everything recorded below is answered by the complete table
			for _, v := range variants {
				for i, rq := range t.Reqs {
					if hr, err := rq.httpRequest(i%2 == 1 && !strings.HasSuffix(rq.Path, "/")); err == nil {
						observe(v.c, "D", hr, &cell)
					}
				}
				if add, ok := lateAdders[v.c]; ok {
					add()
					delete(lateAdders, v.c)
				}
			}
		}
		if addPanic != "" {
			// Container.Add panicked for some registration order (a C11 matter); the table
			// is not used for routing observations
			tw.emit(map[string]interface{}{"e": "addpanic", "tid": ti + 1, "pv": addPanic})
			continue
		}
		seenReq := map[string]bool{}
		type pending struct {
			rq    reqSpec
			outs  []outRec
			index map[string]int
		}
		pend := []*pending{}
		record := func(pd *pending, o outRec, variant []interface{}) {
			key, _ := json.Marshal(o)
			ix, ok := pd.index[string(key)]
			if !ok {
				ix = len(pd.outs)
				pd.index[string(key)] = ix
				o.Vs = [][]interface{}{}
				pd.outs = append(pd.outs, o)
			}
			pd.outs[ix].Vs = append(pd.outs[ix].Vs, variant)
		}
		for _, rq := range t.Reqs {
			rq.Conds, rq.CPanic = nonNilI(rq.Conds), nonNilI(rq.CPanic)
			rk, _ := json.Marshal(rq)
			if seenReq[string(rk)] {
				continue
			}
			seenReq[string(rk)] = true
			pd := &pending{rq: rq, index: map[string]int{}}
			slashes := []int{0}
			if p.Slash && !strings.HasSuffix(rq.Path, "/") {
				slashes = append(slashes, 1)
			}
			for _, v := range variants {
				for _, sl := range slashes {
					for _, en := range p.Entries {
						if en == "S" && rq.EscSlash > 0 {
							// net/http's ServeMux matches patterns segment by segment on the ESCAPED path: where such a
							// request lands is its decision; the framework is asked through Dispatch
							continue
						}
						hr, err := rq.httpRequest(sl == 1)
						if err != nil {
							continue
						}
						record(pd, observe(v.c, en, hr, &cell), []interface{}{v.router, v.perm, sl, en})
					}
				}
			}
			if len(pd.outs) > 0 {
				pend = append(pend, pd)
			}
		}
		if p.Conc > 0 && len(pend) > 1 {
			// nested dispatch: request i is handled by a function that first dispatches request i+1
			for _, v := range variants {
				if v.perm != 0 {
					continue
				}
				for i, pd := range pend {
					other := pend[(i+1)%len(pend)].rq
					rq := pd.rq
					rq.Hdr = map[string]string{"X-Nest": other.M + " " + other.Path}
					hr, err := rq.httpRequest(false)
					if err != nil {
						continue
					}
					record(pd, observe(v.c, "D", hr, &cell), []interface{}{v.router, v.perm, 0, "N"})
				}
			}
		}
		if p.Conc > 0 && len(pend) > 1 {
			// the same requests, all at once, on the perm-0 container of every router (entry "C")
			for _, v := range variants {
				if v.perm != 0 {
					continue
				}
				var wg sync.WaitGroup
				var recMu sync.Mutex
				start := make(chan struct{})
				for g := 0; g < p.Conc; g++ {
					wg.Add(1)
					go func(g int) {
						defer wg.Done()
						<-start
						var mycell *obsCell
						for round := 0; round < 2; round++ {
							for i := g; i < len(pend); i += p.Conc {
								hr, err := pend[i].rq.httpRequest(false)
								if err != nil {
									continue
								}
								o := observe(v.c, "D", hr, &mycell)
								recMu.Lock()
								record(pend[i], o, []interface{}{v.router, v.perm, 0, "C"})
								recMu.Unlock()
							}
						}
					}(g)
				}
				close(start)
				wg.Wait()
			}
		}
		if p.Conc > 0 && len(pend) > 1 {
			// duels: two requests that run DIFFERENT routes of one WebService, each sent 200 times by its own goroutine
			// at the same time (what one of them binds must never show up in the other)
			for _, v := range variants {
				if v.perm != 0 {
					continue
				}
				duels, maxDuels := 0, 1
				for _, sv := range t.Services {
					if strings.Contains(sv.Root, "{") {
						maxDuels = 3 // variables of the root path and of the routes meet in one request
					}
				}
				for i := 0; i < len(pend) && duels < maxDuels; i++ {
					for j := i + 1; j < len(pend) && duels < maxDuels; j++ {
						oi, oj := pend[i].outs[0], pend[j].outs[0]
						if oi.K != "route" || oj.K != "route" || oi.Ws != oj.Ws || oi.Rt == oj.Rt || len(oi.Params)+len(oj.Params) == 0 {
							continue
						}
						duels++
						var wg sync.WaitGroup
						var recMu sync.Mutex
						start := make(chan struct{})
						for _, ix := range []int{i, j} {
							wg.Add(1)
							go func(ix int) {
								defer wg.Done()
								<-start
								var mycell *obsCell
								for n := 0; n < 120; n++ {
									hr, err := pend[ix].rq.httpRequest(false)
									if err != nil {
										return
									}
									o := observe(v.c, "D", hr, &mycell)
									recMu.Lock()
									record(pend[ix], o, []interface{}{v.router, v.perm, 0, "C"})
									recMu.Unlock()
								}
							}(ix)
						}
						close(start)
						wg.Wait()
					}
				}
			}
		}
		for _, pd := range pend {
			// one variant entry per distinct (router, perm, slash, entry)
			for i := range pd.outs {
				seenV := map[string]bool{}
				vs := [][]interface{}{}
				for _, v := range pd.outs[i].Vs {
					k := fmt.Sprint(v)
					if !seenV[k] {
						seenV[k] = true
						vs = append(vs, v)
					}
				}
				pd.outs[i].Vs = vs
			}
			tw.emit(map[string]interface{}{"e": "req", "tid": ti + 1, "req": pd.rq, "outs": pd.outs})
		}
		if t.Options || p.OptionsAll {
			emitOptionsProbes(tw, ti+1, t, routers, p.Universe)
		}
		if p.SlashOptions {
			emitSlashOptionProbes(tw, ti+1, t, routers)
		}
	}
}

package main

import (
	"bufio"
	"bytes"
	"encoding/json"
	"fmt"
	"io"
	"math/rand"
	"net/http"
	"net/http/httptest"
	"os"
	"sort"
	"strings"
	"unicode/utf8"

	restful "github.com/emicklei/go-restful/v3"
)

// ---------- trace writer (ndjson, ASCII only, no null) ----------

type traceWriter struct {
	f *os.File
	w *bufio.Writer
	n int
}

func newTraceWriter(path string) *traceWriter {
	f, err := os.Create(path)
	if err != nil {
		fatal("create trace: %v", err)
	}
	return &traceWriter{f: f, w: bufio.NewWriterSize(f, 1<<20)}
}

func (t *traceWriter) emit(v interface{}) {
	b, err := json.Marshal(v)
	if err != nil {
		fatal("marshal: %v", err)
	}
	// nil slices marshal as null, which TLC's Json module cannot read: every null in these
	// traces is an empty list
	b = bytes.ReplaceAll(b, []byte(":null"), []byte(":[]"))
	b = bytes.ReplaceAll(b, []byte("[null"), []byte("[[]"))
	b = bytes.ReplaceAll(b, []byte(",null"), []byte(",[]"))
	t.w.Write(asciiJSON(b))
	t.w.WriteByte('\n')
	t.n++
}

func (t *traceWriter) flush() { t.w.Flush() }

func (t *traceWriter) close() {
	t.w.Flush()
	t.f.Close()
}

// asciiJSON rewrites every non-ASCII rune of a JSON document as \uXXXX escapes.
func asciiJSON(b []byte) []byte {
	ascii := true
	for _, c := range b {
		if c >= 0x80 {
			ascii = false
			break
		}
	}
	if ascii {
		return b
	}
	var out bytes.Buffer
	for len(b) > 0 {
		r, size := utf8.DecodeRune(b)
		if r < 0x80 {
			out.WriteByte(byte(r))
		} else if r < 0x10000 {
			fmt.Fprintf(&out, "\\u%04x", r)
		} else {
			r -= 0x10000
			fmt.Fprintf(&out, "\\u%04x\\u%04x", 0xd800+(r>>10), 0xdc00+(r&0x3ff))
		}
		b = b[size:]
	}
	return out.Bytes()
}

func fatal(format string, a ...interface{}) {
	fmt.Fprintf(os.Stderr, "HARNESS-FATAL: "+format+"\n", a...)
	os.Exit(2)
}

// ---------- requests from wire bytes ----------

type reqSpec struct {
	M     string `json:"m"`
	Path  string `json:"path"`
	CT    string `json:"ct"`
	Acc   string `json:"acc"`
	Clen  int    `json:"clen"`
	Clh   string `json:"clh"`
	Conds []int  `json:"conds"`
	// CPanic: conditions that PANIC for this request (they are not among Conds: a condition that panics has not
	// returned true)
	CPanic []int `json:"cpanic"`
	// EscSlash > 0: the EscSlash-th "/" of Path (counted from 1, never the first) is sent percent-encoded (%2F).  The
	// server decodes it: the request path is Path, whatever the raw request line looked like
	EscSlash int `json:"escSlash"`
	// outside the specification's string projection (non-UTF-8, very long, ...): only totality is judged;
	// Path then holds the percent-escaped form, Raw the bytes that are sent
	Opaque bool   `json:"opaque"`
	Raw    string `json:"-"`
	// not part of the routing projection
	Hdr  map[string]string `json:"-"`
	Body []byte            `json:"-"`
}

const unreserved = "ABCDEFGHIJKLMNOPQRSTUVWXYZabcdefghijklmnopqrstuvwxyz0123456789-._~/"

func escapePath(p string) string {
	var b strings.Builder
	for i := 0; i < len(p); i++ {
		c := p[i]
		if c == 0 {
			b.WriteString("%2F") // marker of httpRequest: a slash that travels percent-encoded
			continue
		}
		if strings.IndexByte(unreserved, c) >= 0 {
			b.WriteByte(c)
		} else {
			fmt.Fprintf(&b, "%%%02X", c)
		}
	}
	return b.String()
}

// buildRequest produces the *http.Request the server's own parser would produce.
// body == nil and withZeroCL==false: no Content-Length header at all.
func buildRequest(method, path string, hdr [][2]string, body []byte, zeroCL bool) (*http.Request, error) {
	var b bytes.Buffer
	fmt.Fprintf(&b, "%s %s HTTP/1.1\r\nHost: verif.test\r\n", method, escapePath(path))
	for _, kv := range hdr {
		if kv[1] == "" {
			continue
		}
		fmt.Fprintf(&b, "%s: %s\r\n", kv[0], kv[1])
	}
	if len(body) > 0 {
		fmt.Fprintf(&b, "Content-Length: %d\r\n", len(body))
	} else if zeroCL {
		b.WriteString("Content-Length: 0\r\n")
	}
	b.WriteString("\r\n")
	b.Write(body)
	req, err := http.ReadRequest(bufio.NewReader(&b))
	if err != nil {
		return nil, err
	}
	return req, nil
}

// wireHeader: the header section as a client receives it (net/http freezes the headers at the first
// WriteHeader / Write; the recorder's live map keeps accepting changes nobody will ever see)
func wireHeader(rec *httptest.ResponseRecorder) http.Header { return rec.Result().Header }

func condHeader(conds []int) string {
	if len(conds) == 0 {
		return ""
	}
	parts := make([]string, len(conds))
	for i, c := range conds {
		parts[i] = fmt.Sprint(c)
	}
	return strings.Join(parts, ",")
}

func condFn(k int) restful.RouteSelectionConditionFunction {
	needle := fmt.Sprint(k)
	return func(r *http.Request) bool {
		for _, p := range strings.Split(r.Header.Get("X-Cond-Panic"), ",") {
			if strings.TrimSpace(p) == needle {
				panic("condition " + needle + " panics for this request")
			}
		}
		for _, p := range strings.Split(r.Header.Get("X-Cond"), ",") {
			if strings.TrimSpace(p) == needle {
				return true
			}
		}
		return false
	}
}

// ---------- small helpers ----------

func sortedPairs(m map[string]string) [][2]string {
	keys := make([]string, 0, len(m))
	for k := range m {
		keys = append(keys, k)
	}
	sort.Strings(keys)
	out := make([][2]string, 0, len(keys))
	for _, k := range keys {
		out = append(out, [2]string{k, m[k]})
	}
	return out
}

func splitList(h string) []string {
	out := []string{}
	for _, p := range strings.Split(h, ",") {
		p = strings.TrimSpace(p)
		if p != "" {
			out = append(out, p)
		}
	}
	return out
}

func nonNil(s []string) []string {
	if s == nil {
		return []string{}
	}
	return s
}

func nonNilI(s []int) []int {
	if s == nil {
		return []int{}
	}
	return s
}

func pick(r *rand.Rand, xs []string) string { return xs[r.Intn(len(xs))] }

type discardLogger struct{}

func (discardLogger) Print(v ...interface{})                 {}
func (discardLogger) Printf(format string, v ...interface{}) {}

func readJSONFile(path string, v interface{}) {
	f, err := os.Open(path)
	if err != nil {
		fatal("open %s: %v", path, err)
	}
	defer f.Close()
	data, err := io.ReadAll(f)
	if err != nil {
		fatal("read %s: %v", path, err)
	}
	if err := json.Unmarshal(data, v); err != nil {
		fatal("parse %s: %v", path, err)
	}
}

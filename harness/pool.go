package main

// C13 driver: (a) spin-barrier rounds on the bounded cache (M goroutines release at the same
// instant into a cache of capacity K < M), (b) concurrent encoded responses and gzip request
// bodies through real Dispatch with the ledger provider, (c) double Close.

import (
	"bufio"
	"bytes"
	"compress/gzip"
	"fmt"
	"io"
	"math/rand"
	"net"
	"net/http"
	"net/http/httptest"
	"runtime"
	"sync"
	"sync/atomic"
	"time"

	restful "github.com/emicklei/go-restful/v3"
)

type poolPlan struct {
	BarrierRounds int   `json:"barrierRounds"`
	M             int   `json:"m"`
	Ks            []int `json:"ks"`
	Rounds        int   `json:"rounds"` // concurrent dispatch rounds per provider
	G             int   `json:"g"`
	PerG          int   `json:"perG"`
}

func spinBarrier(tw *traceWriter, k, m, rounds int) {
	for r := 0; r < rounds; r++ {
		b := restful.NewBoundedCachedCompressors(k, k)
		ws := make([]*gzip.Writer, m)
		for i := range ws {
			ws[i] = b.AcquireGzipWriter()
		}
		var ready, returned int32
		var goFlag int32
		for i := 0; i < m; i++ {
			go func(w *gzip.Writer) {
				atomic.AddInt32(&ready, 1)
				for atomic.LoadInt32(&goFlag) == 0 {
					// busy wait: all releasers leave the barrier within nanoseconds
				}
				b.ReleaseGzipWriter(w)
				atomic.AddInt32(&returned, 1)
			}(ws[i])
		}
		for atomic.LoadInt32(&ready) < int32(m) {
			runtime.Gosched()
		}
		atomic.StoreInt32(&goFlag, 1)
		// a release that blocks (the legacy check-then-send) never returns; one that is merely waiting for a CPU on a
		// loaded machine does: the deadline is generous so that load is never mistaken for blocking
		deadline := time.Now().Add(15 * time.Second)
		for atomic.LoadInt32(&returned) < int32(m) && time.Now().Before(deadline) {
			time.Sleep(200 * time.Microsecond)
		}
		stuck := m - int(atomic.LoadInt32(&returned))
		tw.emit(map[string]interface{}{"e": "pbar", "k": k, "m": m, "round": r, "stuck": stuck})
		if stuck > 0 {
			// free the blocked releasers so that they do not pile up
			for i := 0; i < stuck+k; i++ {
				b.AcquireGzipWriter()
			}
			break // one witness per capacity is enough (each stuck round waits for the whole deadline)
		}
	}
}

// hijackRecorder: a recorder whose connection can be taken over, like the ResponseWriter of a real HTTP/1 server
type hijackRecorder struct {
	*httptest.ResponseRecorder
}

func (h hijackRecorder) Hijack() (net.Conn, *bufio.ReadWriter, error) {
	a, b := net.Pipe()
	go func() { io.Copy(io.Discard, b); b.Close() }()
	return a, bufio.NewReadWriter(bufio.NewReader(a), bufio.NewWriter(a)), nil
}

type poolEntity struct {
	ID   string `json:"id"`
	Data string `json:"data"`
}

func gzipBytes(b []byte) []byte {
	var buf bytes.Buffer
	w := gzip.NewWriter(&buf)
	w.Write(b)
	w.Close()
	return buf.Bytes()
}

func poolRound(tw *traceWriter, r *rand.Rand, provider string, g, perG int) {
	l := newReqLog()
	prov := &ledgerProvider{inner: makeProvider(provider), ids: map[interface{}]int{}, trap: true, cur: l}
	restful.SetCompressorProvider(prov)
	defer restful.SetCompressorProvider(restful.NewSyncPoolCompessors())
	tw.emit(map[string]interface{}{"e": "pround", "provider": provider, "g": g})
	c := restful.NewContainer()
	c.EnableContentEncoding(true)
	c.DoNotRecover(false)
	ws := new(restful.WebService).Path("/p")
	ws.Route(ws.GET("/out/{id}").To(func(req *restful.Request, resp *restful.Response) {
		id := req.PathParameter("id")
		resp.Write([]byte("payload-" + id + "-"))
		resp.Write(bytes.Repeat([]byte(id), 50))
		if id[len(id)-1] == '7' {
			panic("boom-" + id)
		}
	}))
	// a handler that takes the connection over (websocket style) while a content coding is installed
	ws.Route(ws.GET("/hj/{id}").To(func(req *restful.Request, resp *restful.Response) {
		if hj, ok := resp.ResponseWriter.(http.Hijacker); ok {
			if conn, _, err := hj.Hijack(); err == nil && conn != nil {
				conn.Write([]byte("raw-" + req.PathParameter("id")))
				conn.Close()
			}
		}
	}))
	ws.Route(ws.POST("/in").Consumes(restful.MIME_JSON).To(func(req *restful.Request, resp *restful.Response) {
		var e poolEntity
		if err := req.ReadEntity(&e); err != nil {
			resp.WriteErrorString(400, "bad:"+err.Error())
			return
		}
		resp.Write([]byte("got-" + e.ID + "-" + e.Data))
	}))
	c.Add(ws)
	type result struct {
		ok   bool
		what string
	}
	results := make([][]result, g)
	var wg sync.WaitGroup
	start := make(chan struct{})
	for gi := 0; gi < g; gi++ {
		wg.Add(1)
		seed := r.Int63()
		go func(gi int) {
			defer wg.Done()
			rr := rand.New(rand.NewSource(seed))
			<-start
			for j := 0; j < perG; j++ {
				id := fmt.Sprintf("%d%d%d", gi+1, j, rr.Intn(10))
				switch rr.Intn(7) {
				case 6: // the handler hijacks the connection
					hr, _ := buildRequest("GET", "/p/hj/"+id, [][2]string{{"Accept-Encoding", "gzip"}}, nil, false)
					rec := hijackRecorder{httptest.NewRecorder()}
					func() {
						defer func() { recover() }()
						if rr.Intn(2) == 0 {
							c.ServeHTTP(rec, hr)
						} else {
							c.Dispatch(rec, hr)
						}
					}()
					results[gi] = append(results[gi], result{true, "hijack " + id})
				case 0, 1, 3, 4: // encoded response
					ae := "gzip"
					if rr.Intn(2) == 0 {
						ae = "deflate"
					}
					hr, _ := buildRequest("GET", "/p/out/"+id, [][2]string{{"Accept-Encoding", ae}}, nil, false)
					rec := httptest.NewRecorder()
					func() {
						defer func() { recover() }()
						if rr.Intn(2) == 0 {
							c.ServeHTTP(rec, hr) // the writer is closed by dispatch and again by ServeHTTP
						} else {
							c.Dispatch(rec, hr)
						}
					}()
					ok, decoded := decodeBody(wireHeader(rec).Get("Content-Encoding"), rec.Body.Bytes())
					want := append([]byte("payload-"+id+"-"), bytes.Repeat([]byte(id), 50)...)
					good := ok && bytes.HasPrefix(decoded, want) && wireHeader(rec).Get("Content-Encoding") == ae
					results[gi] = append(results[gi], result{good, "response " + id})
				default: // gzip request body (sometimes corrupt)
					body := gzipBytes([]byte(fmt.Sprintf(`{"id":"%s","data":"d%s"}`, id, id)))
					corrupt := rr.Intn(4) == 0
					if corrupt {
						switch rr.Intn(3) {
						case 0:
							body = body[:len(body)/2] // truncated stream
						case 1:
							body = append([]byte{0x00, 0xff, 0x13}, body[3:]...) // bad magic: Reset itself fails
						default:
							body = body[:5] // cut inside the gzip header
						}
					}
					hr, _ := buildRequest("POST", "/p/in", [][2]string{{"Content-Type", "application/json"}, {"Content-Encoding", "gzip"}}, body, false)
					rec := httptest.NewRecorder()
					func() {
						defer func() { recover() }()
						c.Dispatch(rec, hr)
					}()
					got := rec.Body.String()
					good := (!corrupt && got == "got-"+id+"-d"+id) || (corrupt && rec.Code == 400)
					results[gi] = append(results[gi], result{good, "request body " + id + " -> " + fmt.Sprint(rec.Code)})
				}
			}
		}(gi)
	}
	close(start)
	fin := make(chan bool)
	go func() { wg.Wait(); close(fin) }()
	select {
	case <-fin:
	case <-time.After(20 * time.Second):
		tw.emit(map[string]interface{}{"e": "pbar", "k": -1, "m": g, "round": 0, "stuck": 1})
		return
	}
	l.mu.Lock()
	for _, e := range l.evs {
		tw.emit(map[string]interface{}{"e": "pev", "k": e.K, "o": e.F})
	}
	l.mu.Unlock()
	tw.emit(map[string]interface{}{"e": "pend"})
	for gi := range results {
		for _, rs := range results[gi] {
			tw.emit(map[string]interface{}{"e": "presp", "ok": rs.ok, "what": rs.what})
		}
	}
}

// failing: the underlying writer accepts nothing (client gone): the compressor's own Close fails
func doubleClose(tw *traceWriter, provider, enc string, failing bool) {
	l := newReqLog()
	// trap: a released compressor is reset onto a sink that records any later use
	prov := &ledgerProvider{inner: makeProvider(provider), ids: map[interface{}]int{}, trap: true, cur: l}
	restful.SetCompressorProvider(prov)
	defer restful.SetCompressorProvider(restful.NewSyncPoolCompessors())
	var rec http.ResponseWriter = httptest.NewRecorder()
	if failing {
		rec = &countingWriter{hdr: http.Header{}, budget: 0}
	}
	cw, err := restful.NewCompressingResponseWriter(rec, enc)
	if err != nil {
		return
	}
	cw.Write([]byte("hello"))
	first := cw.Close()
	second := cw.Close()
	_, werr := cw.Write([]byte("late"))
	// a handler that streams calls Flush whenever it likes - also after the writer was closed
	safely(func() { cw.Flush() })
	safely(func() { restful.NewResponse(cw).Flush() })
	rels, lateUse := 0, 0
	for _, e := range l.evs {
		if e.K == "rel" {
			rels++
		}
		if e.K == "use" {
			lateUse++
		}
	}
	tw.emit(map[string]interface{}{"e": "pdbl", "provider": provider, "enc": enc, "failing": failing, "firstErr": first != nil, "secondErr": second != nil && werr != nil, "rels": rels, "lateUse": lateUse})
}

// the provider itself under contention: G goroutines acquire, mark the object as theirs, yield, unmark and release;
// an object marked twice was handed out while in use.  (Requests rarely meet inside the few instructions of an
// Acquire; this does nothing else.)
func providerStress(tw *traceWriter, provider string, g, per int) {
	prov := makeProvider(provider)
	var inUse sync.Map
	var shared, ops int64
	var wg sync.WaitGroup
	start := make(chan struct{})
	for i := 0; i < g; i++ {
		wg.Add(1)
		go func(i int) {
			defer wg.Done()
			<-start
			for j := 0; j < per; j++ {
				var obj interface{}
				var rel func()
				switch (i + j) % 3 {
				case 0:
					w := prov.AcquireGzipWriter()
					obj, rel = w, func() { prov.ReleaseGzipWriter(w) }
				case 1:
					w := prov.AcquireZlibWriter()
					obj, rel = w, func() { prov.ReleaseZlibWriter(w) }
				default:
					rd := prov.AcquireGzipReader()
					obj, rel = rd, func() { prov.ReleaseGzipReader(rd) }
				}
				if _, loaded := inUse.LoadOrStore(obj, i); loaded {
					atomic.AddInt64(&shared, 1)
				}
				runtime.Gosched()
				inUse.Delete(obj)
				rel()
				atomic.AddInt64(&ops, 1)
			}
		}(i)
	}
	done := make(chan struct{})
	go func() { close(start); wg.Wait(); close(done) }()
	stuck := 0
	select {
	case <-done:
	case <-time.After(20 * time.Second):
		stuck = 1
	}
	tw.emit(map[string]interface{}{"e": "pstress", "provider": provider, "g": g, "ops": atomic.LoadInt64(&ops), "shared": atomic.LoadInt64(&shared), "stuck": stuck})
}

func runPool(planPath, outPath string, seed int64) {
	var p poolPlan
	readJSONFile(planPath, &p)
	r := rand.New(rand.NewSource(seed))
	restful.SetLogger(discardLogger{})
	restful.EnableTracing(false)
	tw := newTraceWriter(outPath)
	defer tw.close()
	if p.M == 0 {
		p.M = 16
	}
	for _, k := range p.Ks {
		spinBarrier(tw, k, p.M, p.BarrierRounds)
	}
	for _, prov := range []string{"pool", "cache0", "cache1", "cache2"} {
		for _, enc := range []string{"gzip", "deflate"} {
			doubleClose(tw, prov, enc, false)
			doubleClose(tw, prov, enc, true)
		}
		for i := 0; i < p.Rounds; i++ {
			poolRound(tw, r, prov, p.G, p.PerG)
		}
		providerStress(tw, prov, 32, 40*(1+p.Rounds))
	}
}

package main

// C19 driver: the same request at different positions of a sequential history, inside
// concurrent batches and with trace logging on must be answered exactly as on a fresh
// container, and must see its own parameters / attributes / selected route.

import (
	"encoding/json"
	"encoding/xml"
	"fmt"
	"math/rand"
	"net/http"
	"net/http/httptest"
	"sort"
	"strings"
	"sync"

	restful "github.com/emicklei/go-restful/v3"
)

type purePlan struct {
	Configs int  `json:"configs"`
	History int  `json:"history"` // sequential requests per configuration
	Batches int  `json:"batches"` // concurrent batches (16 goroutines) per configuration
	PerG    int  `json:"perG"`    // requests per goroutine and batch
	Race    bool `json:"race"`
}

type pureCfg struct {
	Router  string
	NFilt   int
	Cors    bool
	Options bool
	Enc     bool
}

type pureKey struct {
	M, Path, Origin, Acrm, AE, Acc string
	Gz                             string // != "": a gzip-encoded JSON entity naming this string, read by the handler
	Adm                            string // header X-Admin (a route condition looks at it)
}

func (k pureKey) String() string {
	return strings.Join([]string{k.M, k.Path, k.Origin, k.Acrm, k.AE, k.Acc, k.Gz, k.Adm}, "|")
}

type pureEntity struct {
	XMLName xml.Name `json:"-" xml:"e"`
	A       string   `json:"a" xml:"a"`
}

type pureBody struct {
	Params map[string]string `json:"params"`
	Rid    string            `json:"rid"`
	Attr   string            `json:"attr"`
	Route  string            `json:"route"`
	Method string            `json:"method"`
}

var pureInject bool

func buildPureContainer(cfg pureCfg) *restful.Container {
	c := restful.NewContainer()
	if cfg.Router == "jsr311" {
		c.Router(restful.RouterJSR311{})
	}
	c.EnableContentEncoding(cfg.Enc)
	for i := 0; i < cfg.NFilt; i++ {
		i := i
		c.Filter(func(req *restful.Request, resp *restful.Response, chain *restful.FilterChain) {
			if i == 0 {
				req.SetAttribute("rid", req.Request.Header.Get("X-Rid"))
			}
			resp.AddHeader(fmt.Sprintf("X-F%d", i), "1")
			if i == 0 {
				// what the chain says about the operation it leads to (nothing for a request that failed routing)
				resp.AddHeader("X-Chain", fmt.Sprintf("%s/%d", chain.Operation, len(chain.ParameterDocs)))
			}
			chain.ProcessFilter(req, resp)
		})
	}
	if cfg.Cors {
		cors := restful.CrossOriginResourceSharing{AllowedHeaders: []string{"X-A"}, ExposeHeaders: []string{"X-E"}, CookiesAllowed: true, Container: c}
		c.Filter(cors.Filter)
	}
	if cfg.Options {
		c.Filter(c.OPTIONSFilter)
	}
	h := func(req *restful.Request, resp *restful.Response) {
		b := pureBody{Params: map[string]string{}, Rid: req.Request.Header.Get("X-Rid"), Route: req.SelectedRoutePath(), Method: req.Request.Method}
		for k, v := range req.PathParameters() {
			b.Params[k] = v
		}
		if a := req.Attribute("rid"); a != nil {
			b.Attr = fmt.Sprint(a)
		}
		if pureInject {
			// a handler may add to the parameters of ITS request (sequential phases only: a map shared
			// between requests would make this a fatal concurrent map write)
			req.PathParameters()["zz-injected"] = b.Rid
		}
		resp.WriteAsJson(b)
	}
	a := new(restful.WebService).Path("/a").Produces(restful.MIME_JSON)
	// every service and one route have filters of their own (a chain is composed per request)
	a.Filter(func(req *restful.Request, resp *restful.Response, chain *restful.FilterChain) {
		resp.AddHeader("X-Svc-A", req.PathParameter("id"))
		chain.ProcessFilter(req, resp)
	})
	a.Route(a.GET("/{id}").Filter(func(req *restful.Request, resp *restful.Response, chain *restful.FilterChain) {
		resp.AddHeader("X-Route-A-Id", req.SelectedRoutePath())
		chain.ProcessFilter(req, resp)
	}).To(h))
	a.Route(a.PUT("/{id}").Operation("putA").Param(a.PathParameter("id", "the id")).To(h))
	a.Route(a.DELETE("/{id}").Operation("deleteA").To(h))
	a.Route(a.PATCH("/lit").To(h))
	a.Route(a.GET("/{id}/sub/{x:*}").To(h))
	a.Route(a.GET("/lit").Operation("getLit").Param(a.QueryParameter("q", "a query")).Param(a.HeaderParameter("X-H", "a header")).To(h))
	// reads a (possibly gzip-encoded) entity and answers with what it read
	a.Route(a.POST("/echo").Consumes(restful.MIME_JSON).To(func(req *restful.Request, resp *restful.Response) {
		var e struct {
			Name  string   `json:"name"`
			Items []string `json:"items"`
		}
		if err := req.ReadEntity(&e); err != nil {
			resp.WriteErrorString(400, "cannot read entity")
			return
		}
		resp.Write([]byte(fmt.Sprintf("read:%s:%d", e.Name, len(e.Items))))
	}))
	// a route only administrators have (a condition on a request header), next to one everybody has
	a.Route(a.GET("/adm/zone").Operation("getAdm").To(h))
	a.Route(a.DELETE("/adm/zone").Operation("deleteAdm").If(func(r *http.Request) bool { return r.Header.Get("X-Admin") == "1" }).To(h))
	// an entity in the representation the client prefers
	a.Route(a.GET("/ent").Operation("getEnt").Produces(restful.MIME_JSON, restful.MIME_XML).To(func(req *restful.Request, resp *restful.Response) {
		resp.WriteEntity(pureEntity{A: "x"})
	}))
	b := new(restful.WebService).Path("/b/{w}")
	b.Filter(func(req *restful.Request, resp *restful.Response, chain *restful.FilterChain) {
		resp.AddHeader("X-Svc", req.PathParameter("w"))
		chain.ProcessFilter(req, resp)
	})
	b.Route(b.GET("").To(h))
	b.Route(b.POST("/{n:[0-9]+}").Consumes(restful.MIME_JSON).To(h))
	c.Add(a).Add(b)
	return c
}

func pureKeys(r *rand.Rand) []pureKey {
	// preflights to URLs with different routable method sets (computed methods must not stick)
	keys := []pureKey{
		{M: "OPTIONS", Path: "/a/1", Origin: "http://a.com", Acrm: "PUT"},
		{M: "OPTIONS", Path: "/b/u", Origin: "http://a.com", Acrm: "PUT"},
		{M: "OPTIONS", Path: "/b/u/12", Origin: "http://b.org", Acrm: "POST"},
		{M: "OPTIONS", Path: "/a/lit", Origin: "http://b.org", Acrm: "GET", AE: "gzip"},
		{M: "OPTIONS", Path: "/a/adm/zone", Adm: "1"},
		{M: "OPTIONS", Path: "/a/adm/zone"},
		{M: "OPTIONS", Path: "/a/adm/zone", Origin: "http://a.com", Acrm: "DELETE", Adm: "1"},
		{M: "OPTIONS", Path: "/a/adm/zone", Origin: "http://a.com", Acrm: "DELETE"},
		{M: "GET", Path: "/a/ent", Acc: "application/xml;q=high, application/json;q=0.5"},
		{M: "GET", Path: "/a/ent", Acc: "application/xml;q=, application/json"},
		{M: "GET", Path: "/a/ent", Acc: "application/xml;q=0.5, application/json;q=0.6"},
		{M: "POST", Path: "/a/echo", Gz: "one"},
		{M: "POST", Path: "/a/echo", Gz: "two"},
		{M: "POST", Path: "/a/echo", Gz: "three", AE: "gzip"},
	}
	paths := []string{"/a/1", "/a/2", "/a/lit", "/a/7/sub/x/y", "/a/8/sub/z", "/b/u", "/b/v", "/b/u/12", "/nope", "/a/1/"}
	for len(keys) < 28 {
		k := pureKey{M: pick(r, []string{"GET", "GET", "GET", "PUT", "OPTIONS", "POST"}), Path: pick(r, paths),
			Origin: pick(r, []string{"", "", "http://a.com", "http://b.org"}), AE: pick(r, []string{"", "gzip", "deflate"}),
			Acc: pick(r, []string{"", "application/json", "text/plain"})}
		if k.M == "OPTIONS" && k.Origin != "" {
			k.Acrm = pick(r, []string{"", "GET", "PUT", "DELETE"})
		}
		dup := false
		for _, o := range keys {
			if o == k {
				dup = true
			}
		}
		if !dup {
			keys = append(keys, k)
		}
	}
	return keys
}

type pureProj struct {
	St     int               `json:"st"`
	Hdr    [][]interface{}   `json:"hdr"`
	Params [][2]string       `json:"params"`
	Route  string            `json:"route"`
	Method string            `json:"method"`
	Body   string            `json:"body"`
	Esc    string            `json:"esc"`
	_      map[string]string `json:"-"`
}

func pureObserve(c *restful.Container, k pureKey, rid string) (pureProj, bool) {
	hdr := [][2]string{{"X-Rid", rid}, {"Origin", k.Origin}, {"Access-Control-Request-Method", k.Acrm}, {"Accept-Encoding", k.AE}, {"Accept", k.Acc}, {"X-Admin", k.Adm}}
	var body []byte
	if k.M == "POST" {
		hdr = append(hdr, [2]string{"Content-Type", "application/json"})
		body = []byte("{}")
	}
	if k.Gz != "" {
		items := make([]string, 3000+len(k.Gz)*100)
		for i := range items {
			items[i] = fmt.Sprintf("%s-%d", k.Gz, i)
		}
		plain, _ := json.Marshal(map[string]interface{}{"name": k.Gz, "items": items})
		body = gzipBytes(plain)
		hdr = append(hdr, [2]string{"Content-Encoding", "gzip"})
	}
	hr, err := buildRequest(k.M, k.Path, hdr, body, false)
	if err != nil {
		fatal("request: %v", err)
	}
	rec := httptest.NewRecorder()
	p := pureProj{Hdr: [][]interface{}{}, Params: [][2]string{}}
	func() {
		defer func() {
			if pv := recover(); pv != nil {
				p.Esc = fmt.Sprint(pv)
			}
		}()
		c.ServeHTTP(rec, hr)
	}()
	p.St = rec.Code
	names := []string{}
	wh := wireHeader(rec)
	for n := range wh {
		names = append(names, n)
	}
	sort.Strings(names)
	for _, n := range names {
		p.Hdr = append(p.Hdr, []interface{}{n, wh[n]})
	}
	ok, decoded := decodeBody(wh.Get("Content-Encoding"), rec.Body.Bytes())
	iso := true
	if !ok {
		p.Body = "UNDECODABLE"
		return p, iso
	}
	var pb pureBody
	if json.Unmarshal(decoded, &pb) == nil && pb.Rid != "" {
		// the handler ran: it must have seen its own request
		iso = pb.Rid == rid && (pb.Attr == rid || pb.Attr == "")
		p.Params = sortedPairs(pb.Params)
		p.Route, p.Method = pb.Route, pb.Method
		p.Body = "handler"
		if pb.Attr == "" {
			p.Body = "handler-noattr"
		}
	} else {
		p.Body = string(decoded)
	}
	return p, iso
}

func runPure(planPath, outPath string, seed int64) {
	var p purePlan
	readJSONFile(planPath, &p)
	r := rand.New(rand.NewSource(seed))
	restful.SetLogger(discardLogger{})
	restful.EnableTracing(false)
	tw := newTraceWriter(outPath)
	defer tw.close()
	rid := 0
	for ci := 0; ci < p.Configs; ci++ {
		cfg := pureCfg{Router: pick(r, []string{"curly", "jsr311"}), NFilt: 1 + r.Intn(3), Cors: r.Intn(3) > 0, Options: r.Intn(3) == 0, Enc: r.Intn(2) == 0}
		keys := pureKeys(r)
		tw.emit(map[string]interface{}{"e": "pcfg", "cfg": cfg})
		emit := func(k pureKey, phase string, trace bool, proj pureProj, iso bool) {
			tw.emit(map[string]interface{}{"e": "pobs", "key": k.String(), "phase": phase, "trace": trace, "proj": proj, "iso": iso})
		}
		pureInject = true
		for _, k := range keys {
			rid++
			proj, iso := pureObserve(buildPureContainer(cfg), k, fmt.Sprint(rid))
			emit(k, "fresh", false, proj, iso)
		}
		c := buildPureContainer(cfg)
		for i := 0; i < p.History; i++ {
			if i == p.History/2 {
				restful.TraceLogger(discardLogger{})
			}
			k := keys[r.Intn(len(keys))]
			rid++
			proj, iso := pureObserve(c, k, fmt.Sprint(rid))
			emit(k, "seq", i >= p.History/2, proj, iso)
		}
		restful.EnableTracing(false)
		pureInject = false
		for b := 0; b < p.Batches; b++ {
			tracing := b%2 == 1
			restful.EnableTracing(tracing)
			type item struct {
				k    pureKey
				proj pureProj
				iso  bool
			}
			const G = 16
			res := make([][]item, G)
			picks := make([][]pureKey, G)
			rids := make([][]string, G)
			for g := 0; g < G; g++ {
				for j := 0; j < p.PerG; j++ {
					picks[g] = append(picks[g], keys[r.Intn(len(keys))])
					rid++
					rids[g] = append(rids[g], fmt.Sprint(rid))
				}
			}
			var wg sync.WaitGroup
			start := make(chan struct{})
			for g := 0; g < G; g++ {
				wg.Add(1)
				go func(g int) {
					defer wg.Done()
					<-start
					for j, k := range picks[g] {
						proj, iso := pureObserve(c, k, rids[g][j])
						res[g] = append(res[g], item{k, proj, iso})
					}
				}(g)
			}
			close(start)
			wg.Wait()
			for g := 0; g < G; g++ {
				for _, it := range res[g] {
					emit(it.k, "conc", tracing, it.proj, it.iso)
				}
			}
		}
		restful.EnableTracing(false)
	}
}

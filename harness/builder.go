package main

// Driver "builder": declaration histories (spec/Builder.tla).  A history is a sequence of API calls on one
// WebService and its RouteBuilders; after every call the driver logs what WebService.Routes() shows, then the
// WebService is added to a container (one per router) and every registered route is probed with requests.
// Histories come from TLC (one per distinct state of MC_Builder) and from a seeded random generator.

import (
	"fmt"
	"math/rand"
	"net/http"
	"net/http/httptest"
	"strings"

	restful "github.com/emicklei/go-restful/v3"
)

type bOp struct {
	Op string   `json:"op"`
	B  int      `json:"b"`
	M  string   `json:"m"`
	V  []string `json:"v"`
}

type bCase struct {
	Ops []bOp `json:"ops"`
}

type bPlan struct {
	Cases  []bCase `json:"cases"`
	Random int     `json:"random"`
}

type bRouteRec struct {
	M    string   `json:"m"`
	Path string   `json:"path"`
	Prod []string `json:"prod"`
	Cons []string `json:"cons"`
}

type bObs struct {
	ran    int
	selp   string
	selm   string
	params map[string]string
	fl     []int
	wfl    []int
}

type bEntity struct {
	A int `json:"a" xml:"a"`
}

const bJ, bX = "application/json", "application/xml"

func bRoutes(ws *restful.WebService) []bRouteRec {
	out := []bRouteRec{}
	for _, rt := range ws.Routes() {
		out = append(out, bRouteRec{M: rt.Method, Path: rt.Path, Prod: append([]string{}, rt.Produces...), Cons: append([]string{}, rt.Consumes...)})
	}
	return out
}

func runBuilderCase(tw *traceWriter, cid int, ops []bOp, routers []string) {
	tw.emit(map[string]interface{}{"e": "bcase", "cid": cid})
	var cur *bObs
	ws := new(restful.WebService)
	ws.SetDynamicRoutes(true)
	builders := map[int]*restful.RouteBuilder{}
	// containers (one per router) the WebService is added to, at the "cadd" call or else at the end
	containers := map[string]*restful.Container{}
	addNow := func() {
		for _, router := range routers {
			c := restful.NewContainer()
			if router == "jsr311" {
				c.Router(restful.RouterJSR311{})
			} else {
				c.Router(restful.CurlyRouter{})
			}
			if pv := safely(func() { c.Add(ws) }); pv != "" {
				fatal("Container.Add panicked: %s", pv)
			}
			containers[router] = c
		}
	}
	nf := 0
	handler := func(req *restful.Request, resp *restful.Response) {
		if cur != nil {
			cur.ran++
			cur.selp = req.SelectedRoutePath()
			if sr := req.SelectedRoute(); sr != nil {
				cur.selm = sr.Method()
			}
			for k, v := range req.PathParameters() {
				cur.params[k] = v
			}
		}
		resp.WriteEntity(bEntity{A: 1})
	}
	mkFilter := func(id int, service bool) restful.FilterFunction {
		return func(req *restful.Request, resp *restful.Response, chain *restful.FilterChain) {
			if cur != nil {
				if service {
					cur.wfl = append(cur.wfl, id)
				} else {
					cur.fl = append(cur.fl, id)
				}
			}
			chain.ProcessFilter(req, resp)
		}
	}
	for _, o := range ops {
		v := nonNil(o.V)
		switch o.Op {
		case "wsPath":
			ws.Path(v[0])
		case "wsProduces":
			ws.Produces(append([]string{}, v...)...)
		case "wsConsumes":
			ws.Consumes(append([]string{}, v...)...)
		case "wsFilter":
			nf++
			ws.Filter(mkFilter(nf, true))
		case "new":
			builders[o.B] = ws.Method(o.M).Path(v[0]).To(handler).Operation(fmt.Sprintf("op%d", o.B))
		case "bPath":
			builders[o.B].Path(v[0])
		case "bProduces":
			builders[o.B].Produces(append([]string{}, v...)...)
		case "bConsumes":
			builders[o.B].Consumes(append([]string{}, v...)...)
		case "bFilter":
			nf++
			builders[o.B].Filter(mkFilter(nf, false))
		case "route":
			ws.Route(builders[o.B])
		case "cadd":
			addNow()
		case "rm":
			rt := ws.Routes()[o.B-1]
			if err := ws.RemoveRoute(rt.Path, rt.Method); err != nil {
				fatal("RemoveRoute: %v", err)
			}
		default:
			fatal("unknown builder op %q", o.Op)
		}
		tw.emit(map[string]interface{}{"e": "bop", "op": o.Op, "b": o.B, "m": o.M, "v": v, "routes": bRoutes(ws)})
	}
	routes := bRoutes(ws)
	if len(routes) == 0 {
		return
	}
	if len(containers) == 0 {
		addNow()
	}
	for _, router := range routers {
		c := containers[router]
		for ri, rt := range routes {
			path := strings.ReplaceAll(rt.Path, "{w}", "7")
			cts := []string{"", bJ, bX}
			if rt.M == "GET" {
				cts = []string{""}
			}
			for _, ct := range cts {
				for _, acc := range []string{"", bJ, bX} {
					var body []byte
					if ct != "" && (rt.M == "POST" || rt.M == "PUT") {
						body = []byte("{}")
					}
					hr, err := buildRequest(rt.M, path, [][2]string{{"Content-Type", ct}, {"Accept", acc}}, body, false)
					if err != nil {
						continue
					}
					obs := &bObs{params: map[string]string{}, fl: []int{}, wfl: []int{}}
					cur = obs
					rec := httptest.NewRecorder()
					escaped := false
					func() {
						defer func() {
							if pv := recover(); pv != nil {
								escaped = true
							}
						}()
						c.Dispatch(rec, hr)
					}()
					cur = nil
					clh := ""
					if len(body) > 0 {
						clh = fmt.Sprint(len(body))
					}
					req := reqSpec{M: rt.M, Path: path, CT: ct, Acc: acc, Clen: len(body), Clh: clh, Conds: []int{}}
					out := map[string]interface{}{"k": "err", "ws": 0, "rt": 0, "params": [][2]string{}, "st": rec.Code, "allow": []string{},
						"ran": obs.ran, "selp": "", "selm": ""}
					if escaped {
						out["k"] = "panic"
					} else if obs.ran > 0 {
						idx := 0
						for j, r2 := range routes {
							if r2.Path == obs.selp && r2.M == obs.selm {
								idx = j + 1
							}
						}
						out["k"], out["ws"], out["rt"], out["st"] = "route", 1, idx, 0
						out["params"], out["selp"], out["selm"] = sortedPairs(obs.params), obs.selp, obs.selm
					} else if rec.Code == http.StatusMethodNotAllowed {
						out["allow"] = splitList(wireHeader(rec).Get("Allow"))
					}
					wct := ""
					if obs.ran > 0 && rec.Code == http.StatusOK {
						wct = wireHeader(rec).Get("Content-Type")
					}
					tw.emit(map[string]interface{}{"e": "bprobe", "router": router, "ri": ri + 1, "req": req, "out": out,
						"fl": obs.fl, "wfl": obs.wfl, "wct": wct})
				}
			}
		}
	}
}

// randomBuilderCase: a longer history over three builders and more media lists; only calls the
// specification's Enabled allows (a WebService path is set before the first builder is made, a builder
// is registered only under a (method, path) that is not yet taken)
func randomBuilderCase(r *rand.Rand) []bOp {
	lists := [][]string{{}, {bJ}, {bX}, {bJ, bX}, {bX, bJ}}
	roots := []string{"/a", "/{w}", "/a/{w}/b"}
	ops := []bOp{}
	live := map[int]bool{}
	curM, curP := map[int]string{}, map[int]string{}
	taken := map[string]bool{}
	regd := []string{} // method+path of the registered routes, in order
	added := false
	made := 0
	n := 6 + r.Intn(12)
	if r.Intn(2) == 0 {
		ops = append(ops, bOp{Op: "wsPath", V: []string{roots[r.Intn(len(roots))]}})
	}
	for len(ops) < n {
		b := 1 + r.Intn(3)
		switch k := r.Intn(12); {
		case k == 0:
			ops = append(ops, bOp{Op: "wsProduces", V: lists[r.Intn(len(lists))]})
		case k == 1:
			ops = append(ops, bOp{Op: "wsConsumes", V: lists[r.Intn(len(lists))]})
		case k == 2:
			if r.Intn(2) == 0 {
				ops = append(ops, bOp{Op: "wsFilter", V: []string{}})
			} else if !added && r.Intn(2) == 0 {
				added = true
				ops = append(ops, bOp{Op: "cadd", V: []string{}})
			} else if len(regd) > 0 {
				i := r.Intn(len(regd))
				delete(taken, regd[i])
				regd = append(regd[:i], regd[i+1:]...)
				ops = append(ops, bOp{Op: "rm", B: i + 1, V: []string{}})
			}
		case k <= 4:
			made++
			live[b] = true
			curM[b] = []string{"GET", "POST", "PUT"}[r.Intn(3)]
			curP[b] = fmt.Sprintf("/p%d", made)
			if r.Intn(8) == 0 {
				curP[b] = pick(r, []string{"/", ""}) // the root resource of the WebService
			}
			ops = append(ops, bOp{Op: "new", B: b, M: curM[b], V: []string{curP[b]}})
		case !live[b]:
			continue
		case k == 5:
			made++
			curP[b] = fmt.Sprintf("/p%d", made)
			ops = append(ops, bOp{Op: "bPath", B: b, V: []string{curP[b]}})
		case k == 6:
			ops = append(ops, bOp{Op: "bProduces", B: b, V: lists[r.Intn(len(lists))]})
		case k == 7:
			ops = append(ops, bOp{Op: "bConsumes", B: b, V: lists[r.Intn(len(lists))]})
		case k == 8:
			ops = append(ops, bOp{Op: "bFilter", B: b, V: []string{}})
		default:
			key := curM[b] + " " + curP[b]
			if curP[b] == "" {
				key = curM[b] + " /" // "" and "/" both name the root resource
			}
			if taken[key] {
				continue
			}
			taken[key] = true
			regd = append(regd, key)
			ops = append(ops, bOp{Op: "route", B: b, V: []string{}})
		}
	}
	return ops
}

func runBuilder(planPath, outPath string, seed int64) {
	var p bPlan
	readJSONFile(planPath, &p)
	restful.SetLogger(discardLogger{})
	restful.EnableTracing(false)
	restful.TrimRightSlashEnabled = true
	r := rand.New(rand.NewSource(seed))
	tw := newTraceWriter(outPath)
	defer tw.close()
	cid := 0
	for _, c := range p.Cases {
		cid++
		runBuilderCase(tw, cid, c.Ops, []string{[]string{"curly", "jsr311"}[cid%2]})
	}
	for i := 0; i < p.Random; i++ {
		cid++
		runBuilderCase(tw, cid, randomBuilderCase(r), []string{"curly", "jsr311"})
	}
}

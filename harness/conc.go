package main

// C12 driver: server goroutines send probe requests while one mutator goroutine performs a
// seeded history of Add / Remove / Route / RemoveRoute.  Every response is logged with the
// window of registration states that existed during the request and the answers fresh
// containers in those states give; built with -race the detector's reports are collected.

import (
	"fmt"
	"math/rand"
	"net/http/httptest"
	"strings"
	"sync"
	"sync/atomic"
	"time"

	restful "github.com/emicklei/go-restful/v3"
)

type concPlan struct {
	Duo     int        `json:"duo"` // rounds with two mutator goroutines on disjoint services
	Rounds  int        `json:"rounds"`
	Servers int        `json:"servers"`
	Ops     int        `json:"ops"`
	Pairs   [][]string `json:"pairs"` // TLC-found conflicting operation pairs to run head to head
}

type concState struct {
	services []*regService
}

func (s concState) clone() concState {
	n := concState{}
	for _, x := range s.services {
		n.services = append(n.services, &regService{root: x.root, routes: append([]string{}, x.routes...)})
	}
	return n
}

func (s concState) fresh(router string) *restful.Container {
	c := newRegContainer(router)
	for _, x := range s.services {
		c.Add(x.build())
	}
	return c
}

var concProbes = []string{"/a", "/a/x", "/a/dyn", "/b", "/b/x", "/b/dyn", "/c/7", "/c/7/x", "/d/x", "/zz", "/a/q", "/b/q", "/c/7/g", "/c/7/g/x", "/a/42/n", "/b/42/n", "/d/42/n", "/a/q/n"}

func applyConcOp(s concState, op []string) concState {
	n := s.clone()
	switch op[0] {
	case "add":
		n.services = append(n.services, &regService{root: op[1], routes: []string{"", "/x", "/{p}", "/{n:[0-9]+}/n"}})
	case "remove":
		out := []*regService{}
		for _, x := range n.services {
			if x.root != op[1] {
				out = append(out, x)
			}
		}
		n.services = out
	case "route":
		for _, x := range n.services {
			if x.root == op[1] {
				x.routes = append(x.routes, "/dyn")
			}
		}
	case "unroute":
		for _, x := range n.services {
			if x.root == op[1] {
				out := []string{}
				for _, p := range x.routes {
					if p != op[2] {
						out = append(out, p)
					}
				}
				x.routes = out
			}
		}
	}
	return n
}

func has(s concState, root string) *regService {
	for _, x := range s.services {
		if x.root == root {
			return x
		}
	}
	return nil
}

func hasRoute(x *regService, p string) bool {
	for _, q := range x.routes {
		if q == p {
			return true
		}
	}
	return false
}

func randomConcOps(r *rand.Rand, init concState, n int) [][]string {
	ops := [][]string{}
	s := init
	// "/c/{x}" and "/c/{x}/g" share the fixed part the ServeMux sees; a service on "/" takes every pattern over
	roots := []string{"/a", "/b", "/c/{x}", "/d", "/a", "/b", "/c/{x}", "/d", "/c/{x}/g", "/c/{x}/g", "/"}
	for len(ops) < n {
		var op []string
		root := pick(r, roots)
		x := has(s, root)
		switch r.Intn(4) {
		case 0:
			if x == nil {
				op = []string{"add", root}
			}
		case 1:
			if x != nil && len(s.services) > 1 {
				op = []string{"remove", root}
			}
		case 2:
			if x != nil && !hasRoute(x, "/dyn") {
				op = []string{"route", root}
			}
		case 3:
			if x != nil {
				p := pick(r, []string{"/x", "/dyn"})
				if hasRoute(x, p) {
					op = []string{"unroute", root, p}
				}
			}
		}
		if op != nil {
			ops = append(ops, op)
			s = applyConcOp(s, op)
		}
	}
	return ops
}

var stuckOnce bool
var byHandlerSeq int64

func runConcRound(tw *traceWriter, r *rand.Rand, round int, servers, nops int) {
	router := pick(r, []string{"curly", "jsr311"})
	init := concState{services: []*regService{{root: "/a", routes: []string{"", "/x", "/{p}", "/{n:[0-9]+}/n"}}, {root: "/b", routes: []string{"", "/x", "/{p}", "/{n:[0-9]+}/n"}}}}
	ops := randomConcOps(r, init, nops)
	// the sequence of registration states and what a fresh container answers in each
	states := []concState{init}
	for _, op := range ops {
		states = append(states, applyConcOp(states[len(states)-1], op))
	}
	answers := make([]map[string]string, len(states))
	for i, s := range states {
		fc := s.fresh(router)
		answers[i] = map[string]string{}
		for _, p := range concProbes {
			for _, en := range []string{"S", "D"} {
				a, _ := regProbe(fc, en, p)
				answers[i][en+p] = norm404(a)
			}
		}
	}
	tw.emit(map[string]interface{}{"e": "chist", "round": round, "router": router, "ops": ops, "servers": servers})
	tw.flush()
	// the container under test
	c := newRegContainer(router)
	live := map[string]*restful.WebService{}
	for _, x := range init.services {
		ws := x.build()
		live[x.root] = ws
		c.Add(ws)
	}
	var seq int64
	opStart := make([]int64, len(ops))
	opEnd := make([]int64, len(ops))
	var done int32
	type resp struct {
		key  string
		obs  string
		s, e int64
	}
	results := make([][]resp, servers)
	var wg sync.WaitGroup
	for g := 0; g < servers; g++ {
		wg.Add(1)
		go func(g int) {
			defer wg.Done()
			rr := rand.New(rand.NewSource(int64(round*100 + g)))
			for atomic.LoadInt32(&done) == 0 || len(results[g]) < 20 {
				p := concProbes[rr.Intn(len(concProbes))]
				en := "S"
				if rr.Intn(2) == 0 {
					en = "D"
				}
				if rr.Intn(40) == 0 {
					// a request whose route selection panics (escapes: recovery is off); it must leave no lock behind
					if hb, err := buildRequest("GET", p, [][2]string{{"X-Boom", "1"}}, nil, false); err == nil {
						safely(func() { c.Dispatch(httptest.NewRecorder(), hb) })
					}
				}
				s := atomic.AddInt64(&seq, 1)
				obs, _ := regProbe(c, en, p)
				obs = norm404(obs)
				e := atomic.AddInt64(&seq, 1)
				results[g] = append(results[g], resp{en + p, obs, s, e})
				if len(results[g]) > 4000 {
					break
				}
			}
		}(g)
	}
	mutPanic := ""
	wg.Add(1)
	go func() {
		defer wg.Done()
		defer atomic.StoreInt32(&done, 1)
		for i, op := range ops {
			if r.Intn(2) == 0 {
				time.Sleep(time.Duration(50+r.Intn(300)) * time.Microsecond) // else: back to back with the previous one
			}
			opStart[i] = atomic.AddInt64(&seq, 1)
			pv := safely(func() {
				switch op[0] {
				case "add":
					ws := (&regService{root: op[1], routes: []string{"", "/x", "/{p}", "/{n:[0-9]+}/n"}}).build()
					live[op[1]] = ws
					c.Add(ws)
				case "remove":
					c.Remove(live[op[1]])
					delete(live, op[1])
				case "route":
					addRegRoute(live[op[1]], op[1], "/dyn")
				case "unroute":
					root := op[1]
					live[root].RemoveRoute(trimRightSlash(root)+op[2], "GET")
				}
			})
			opEnd[i] = atomic.AddInt64(&seq, 1)
			if pv != "" {
				mutPanic = pv
				return
			}
		}
	}()
	fin := make(chan bool)
	go func() { wg.Wait(); close(fin) }()
	select {
	case <-fin:
	case <-time.After(30 * time.Second):
		tw.emit(map[string]interface{}{"e": "cstuck", "round": round})
		stuckOnce = true // goroutines of this round are lost: no further rounds in this process
		return
	}
	if mutPanic != "" {
		tw.emit(map[string]interface{}{"e": "cpanic", "round": round, "pv": mutPanic})
	}
	for g := 0; g < servers; g++ {
		for _, rp := range results[g] {
			lo, hi := 0, 0
			for i := range ops {
				if opEnd[i] != 0 && opEnd[i] < rp.s {
					lo = i + 1
				}
				if opStart[i] != 0 && opStart[i] < rp.e {
					hi = i + 1
				}
			}
			cands := []string{}
			seen := map[string]bool{}
			for k := lo; k <= hi; k++ {
				a := answers[k][rp.key]
				if !seen[a] {
					seen[a] = true
					cands = append(cands, a)
				}
			}
			tw.emit(map[string]interface{}{"e": "cresp", "key": rp.key, "obs": rp.obs, "lo": lo, "hi": hi, "cands": cands,
				"quiet": len(cands) == 1 && lo != hi})
		}
	}
}

// "not found" is answered by the ServeMux or by the router depending on which of the two
// notices first; the texts differ, the meaning does not
func norm404(proj string) string {
	if len(proj) >= 4 && proj[:4] == "404|" {
		return "404"
	}
	return proj
}

// two mutators on disjoint services: no window rule (no total order of states is known), but
// nothing may be lost: when both are done the container must answer like a fresh container
// holding what the two histories leave behind
func runConcDuo(tw *traceWriter, r *rand.Rand, round, servers int) {
	router := pick(r, []string{"curly", "jsr311"})
	init := concState{services: []*regService{{root: "/a", routes: []string{"", "/x", "/{p}", "/{n:[0-9]+}/n"}}, {root: "/b", routes: []string{"", "/x", "/{p}", "/{n:[0-9]+}/n"}}}}
	// many more services and plain handlers: rebuilding the ServeMux in Remove takes a while
	for i := 0; i < 30; i++ {
		init.services = append(init.services, &regService{root: fmt.Sprintf("/z%d", i), routes: []string{""}})
	}
	c := newRegContainer(router)
	for i := 0; i < 30; i++ {
		c.Handle(fmt.Sprintf("/hz%d/", i), regHandler("z"))
	}
	var liveMu sync.Mutex
	live := map[string]*restful.WebService{}
	for _, x := range init.services {
		ws := x.build()
		live[x.root] = ws
		c.Add(ws)
	}
	mkOps := func(roots []string, own string, n int) [][]string {
		ops := [][]string{}
		present := map[string]bool{}
		dyn := false
		for len(ops) < n {
			root := pick(r, roots)
			switch r.Intn(3) {
			case 0, 1:
				if present[root] {
					ops = append(ops, []string{"remove", root})
				} else {
					ops = append(ops, []string{"add", root})
				}
				present[root] = !present[root]
			case 2:
				if !dyn {
					ops = append(ops, []string{"route", own})
				} else {
					ops = append(ops, []string{"unroute", own, "/dyn"})
				}
				dyn = !dyn
			}
		}
		return ops
	}
	opsA := mkOps([]string{"/c/{x}", "/d"}, "/a", 120+r.Intn(60))
	opsB := mkOps([]string{"/e", "/f/{y}"}, "/b", 120+r.Intn(60))
	final := init
	for _, op := range opsA {
		final = applyConcOp(final, op)
	}
	for _, op := range opsB {
		final = applyConcOp(final, op)
	}
	tw.emit(map[string]interface{}{"e": "chist", "round": round, "router": router, "ops": append(append([][]string{}, opsA...), opsB...), "servers": servers, "duo": true})
	// the library exits the process when a root path is added twice; the histories never do that, so an
	// exit means the container no longer holds what the histories say: flush the intent first
	tw.flush()
	var done int32
	var wg, mw sync.WaitGroup
	for g := 0; g < servers; g++ {
		wg.Add(1)
		go func(g int) {
			defer wg.Done()
			rr := rand.New(rand.NewSource(int64(round*100 + g)))
			for atomic.LoadInt32(&done) == 0 {
				regProbe(c, pick(rr, []string{"S", "D"}), pick(rr, append(concProbes, "/c/1", "/e", "/f/2/x", "/d")))
			}
		}(g)
	}
	panics := make([]string, 2)
	var ownMu sync.Mutex
	own := [][3]string{}
	for mi, ops := range [][][]string{opsA, opsB} {
		mw.Add(1)
		go func(mi int, ops [][]string) {
			defer mw.Done()
			present := map[string]bool{}
			for _, op := range ops {
				if op[0] == "add" || op[0] == "remove" {
					// only this goroutine changes this service: it must still be as this goroutine left it
					p := strings.NewReplacer("{x}", "7", "{y}", "7").Replace(op[1]) + "/x"
					got, _ := regProbe(c, "D", p)
					want := "404"
					if present[op[1]] {
						want = "200|ws:" + op[1] + ":/x|||1"
					}
					ownMu.Lock()
					own = append(own, [3]string{"D" + p, norm404(got), want})
					ownMu.Unlock()
					present[op[1]] = op[0] == "add"
				}
				pv := safely(func() {
					switch op[0] {
					case "add":
						ws := (&regService{root: op[1], routes: []string{"", "/x", "/{p}", "/{n:[0-9]+}/n"}}).build()
						liveMu.Lock()
						live[op[1]] = ws
						liveMu.Unlock()
						c.Add(ws)
					case "remove":
						liveMu.Lock()
						ws := live[op[1]]
						delete(live, op[1])
						liveMu.Unlock()
						c.Remove(ws)
					case "route":
						liveMu.Lock()
						ws := live[op[1]]
						liveMu.Unlock()
						addRegRoute(ws, op[1], "/dyn")
					case "unroute":
						liveMu.Lock()
						ws := live[op[1]]
						liveMu.Unlock()
						ws.RemoveRoute(trimRightSlash(op[1])+op[2], "GET")
					}
				})
				if pv != "" {
					panics[mi] = pv
					return
				}
			}
		}(mi, ops)
	}
	fin := make(chan bool)
	go func() { mw.Wait(); atomic.StoreInt32(&done, 1); wg.Wait(); close(fin) }()
	select {
	case <-fin:
	case <-time.After(30 * time.Second):
		tw.emit(map[string]interface{}{"e": "cstuck", "round": round})
		stuckOnce = true // goroutines of this round are lost: no further rounds in this process
		return
	}
	for _, pv := range panics {
		if pv != "" {
			tw.emit(map[string]interface{}{"e": "cpanic", "round": round, "pv": pv})
		}
	}
	for _, o := range own {
		tw.emit(map[string]interface{}{"e": "cfinal", "key": o[0], "obs": o[1], "want": o[2], "own": true})
	}
	fc := final.fresh(router)
	for i := 0; i < 30; i++ {
		fc.Handle(fmt.Sprintf("/hz%d/", i), regHandler("z"))
	}
	for _, p := range append(append([]string{}, concProbes...), "/z3", "/z29", "/hz7/x", "/c/1", "/c/1/x", "/e", "/e/x", "/f/2", "/f/2/x", "/d", "/a/dyn", "/b/dyn") {
		for _, en := range []string{"S", "D"} {
			got, _ := regProbe(c, en, p)
			want, _ := regProbe(fc, en, p)
			tw.emit(map[string]interface{}{"e": "cfinal", "key": en + p, "obs": norm404(got), "want": norm404(want)})
		}
	}
}

func trimRightSlash(s string) string {
	for len(s) > 0 && s[len(s)-1] == '/' {
		s = s[:len(s)-1]
	}
	return s
}

// head-to-head runs of two operations TLC found co-enabled and conflicting (meant for -race)
func runConcPair(tw *traceWriter, pair []string, rep int) {
	for k := 0; k < rep; k++ {
		c := newRegContainer("curly")
		a := (&regService{root: "/a", routes: []string{"", "/x"}}).build()
		b := (&regService{root: "/b", routes: []string{"", "/x"}}).build()
		c.Add(a).Add(b)
		c.Filter(c.OPTIONSFilter)
		// an administrative endpoint: its handler changes the container it is served by
		adm := new(restful.WebService).Path("/adm")
		adm.Route(adm.GET("").To(func(req *restful.Request, resp *restful.Response) {
			// (a root of its own per invocation: adding a root path twice is a documented exit of the library)
			nws := (&regService{root: fmt.Sprintf("/byhandler%d", atomic.AddInt64(&byHandlerSeq, 1)), routes: []string{""}}).build()
			c.Add(nws)
			c.Remove(nws)
			resp.Write([]byte("changed"))
		}))
		c.Add(adm)
		// a dynamic WebService with a single route: removing it (twice, or by two goroutines) leaves none
		only := new(restful.WebService).Path("/only")
		only.SetDynamicRoutes(true)
		only.Route(only.GET("").To(func(req *restful.Request, resp *restful.Response) { resp.Write([]byte("only")) }))
		c.Add(only)
		do := func(kind string) {
			switch kind {
			case "removeOnly":
				for _, rt := range only.Routes() {
					only.RemoveRoute(rt.Path, rt.Method)
				}
				only.RemoveRoute("/only", "GET") // once more, when none is left
			case "handlerChanges":
				regProbe(c, "S", "/adm")
			case "optionsCurly":
				if hr, err := buildRequest("OPTIONS", "/b/x", nil, nil, false); err == nil {
					c.Dispatch(httptest.NewRecorder(), hr)
				}
			case "serveCurly":
				regProbe(c, "S", "/b/x")
			case "dispatchCurly":
				regProbe(c, "D", "/b/x")
			case "remove":
				c.Remove(a)
			case "add":
				c.Add((&regService{root: "/n", routes: []string{""}}).build())
			case "route":
				addRegRoute(b, "/b", "/dyn")
			case "removeRoute":
				b.RemoveRoute("/b/x", "GET")
			case "handle":
				c.Handle("/hh/", regHandler("/hh/"))
			}
		}
		var wg sync.WaitGroup
		var pairPanic atomic.Value
		defer func() {
			if pv, ok := pairPanic.Load().(string); ok {
				tw.emit(map[string]interface{}{"e": "cpanic", "round": -1, "pv": pv})
			}
		}()
		start := make(chan struct{})
		for _, kind := range pair {
			wg.Add(1)
			go func(kind string) {
				defer wg.Done()
				<-start
				if pv := safely(func() { do(kind) }); pv != "" {
					pairPanic.Store(kind + ": " + pv)
				}
			}(kind)
		}
		close(start)
		fin := make(chan bool)
		go func() { wg.Wait(); close(fin) }()
		select {
		case <-fin:
		case <-time.After(20 * time.Second):
			// two operations that block each other for good: a deadlock (the goroutines are lost)
			tw.emit(map[string]interface{}{"e": "cstuck", "round": -1, "pair": pair})
			stuckOnce = true
			return
		}
	}
	tw.emit(map[string]interface{}{"e": "cpair", "pair": pair, "reps": rep})
}

func runConc(planPath, outPath string, seed int64) {
	var p concPlan
	readJSONFile(planPath, &p)
	r := rand.New(rand.NewSource(seed))
	restful.SetLogger(discardLogger{})
	restful.EnableTracing(false)
	tw := newTraceWriter(outPath)
	defer tw.close()
	// the conflicting pairs TLC found, and two more kinds of change "while requests are served": a handler that
	// changes its own container, and the OPTIONS filter (which walks the registry again) against Add / Remove
	pairs := append(append([][]string{}, p.Pairs...), []string{"handlerChanges", "serveCurly"}, []string{"handlerChanges", "handlerChanges"},
		[]string{"optionsCurly", "add"}, []string{"optionsCurly", "remove"}, []string{"removeOnly", "removeOnly"}, []string{"removeOnly", "serveCurly"})
	for _, pair := range pairs {
		if !stuckOnce {
			runConcPair(tw, pair, 30)
		}
	}
	if p.Servers == 0 {
		p.Servers = 4
	}
	if p.Ops == 0 {
		p.Ops = 12
	}
	for i := 0; i < p.Rounds && !stuckOnce; i++ {
		runConcRound(tw, r, i, p.Servers, p.Ops)
	}
	for i := 0; i < p.Duo && !stuckOnce; i++ {
		runConcDuo(tw, r, 1000+i, p.Servers)
	}
	_ = fmt.Sprint
}

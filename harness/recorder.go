package main

import (
	"net/http"
	"net/http/httptest"

	restful "github.com/emicklei/go-restful/v3"
)

type recObs struct {
	code     int
	hdr      http.Header
	body     []byte
	ran      int
	panicked bool
}

func (r recObs) codeOrRoute() int {
	if r.panicked {
		return -1
	}
	if r.ran > 0 {
		return 200
	}
	return r.code
}

func newRecorderObserve(c *restful.Container, hr *http.Request, cell **obsCell) recObs {
	*cell = &obsCell{}
	rec := httptest.NewRecorder()
	out := recObs{}
	func() {
		defer func() {
			if recover() != nil {
				out.panicked = true
			}
		}()
		c.Dispatch(rec, hr)
	}()
	out.code, out.hdr, out.body, out.ran = rec.Code, rec.Header(), rec.Body.Bytes(), len((*cell).ran)
	return out
}

package main

import (
	"fmt"
	"net/http"
	"net/http/httptest"
	"sync/atomic"

	restful "github.com/emicklei/go-restful/v3"
)

type recObs struct {
	code     int
	hdr      http.Header
	body     []byte
	ran      int
	panicked bool
}

func (r recObs) codeOrRoute() int {
	if r.panicked {
		return -1
	}
	if r.ran > 0 {
		return 200
	}
	return r.code
}

func newRecorderObserve(c *restful.Container, hr *http.Request, cell **obsCell) recObs {
	mine := &obsCell{}
	*cell = mine
	rid := fmt.Sprint(atomic.AddInt64(&ridSeq, 1))
	hr.Header.Set("X-Rid", rid)
	cellMu.Lock()
	cellMap[rid] = mine
	cellMu.Unlock()
	defer func() {
		cellMu.Lock()
		delete(cellMap, rid)
		cellMu.Unlock()
	}()
	rec := httptest.NewRecorder()
	out := recObs{}
	func() {
		defer func() {
			if recover() != nil {
				out.panicked = true
			}
		}()
		c.Dispatch(rec, hr)
	}()
	out.code, out.hdr, out.body, out.ran = rec.Code, wireHeader(rec), rec.Body.Bytes(), len((*cell).ran)
	return out
}

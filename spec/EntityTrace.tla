---------------------------- MODULE EntityTrace ----------------------------
(***************************************************************************)
(* Trace validation for C16: sequences of request bodies (well-formed,     *)
(* truncated, corrupt, mis-declared) sent to a real echo handler that      *)
(* calls Request.ReadEntity, on every compressor provider.  The outcome    *)
(* each request must have is computed HERE from its kind alone (so the     *)
(* same kind must behave the same at every position of every history);     *)
(* a well-formed body must give back a value equal to the one the real     *)
(* entity writer serialised (DeepEqual, and exact numbers when decoding    *)
(* into an untyped map); reading never panics; every acquired reader is    *)
(* released by the end of the sequence.                                    *)
(***************************************************************************)
EXTENDS Integers, Sequences, FiniteSets, Json, IOUtils, TLC

Trace == ndJsonDeserialize(IOEnv.TRACE_FILE)
VARIABLES l
Mis(line, clause, d) == PrintT("MISMATCH " \o ToJson([line |-> line, clause |-> clause, out |-> 0, variant |-> d]))
Bump(k) == TLCSet(k, TLCGet(k) + 1)
Chk(line, ok, clause, d) == IF ok THEN TRUE ELSE Mis(line, clause, d)
\* registers: 1 line, 2 bodies judged, 3 bodies read after an earlier damaged body in the same
\* sequence, 4 well-formed compressed bodies, 5 sequences

Outcome(k) == IF k.dmg = "none" THEN "ok" ELSE "error"

Check(line, ev) ==
  CASE ev.e = "eres" ->
         /\ Bump(2)
         /\ IF ev.afterDamage THEN Bump(3) ELSE TRUE
         /\ IF ev.kind.dmg = "none" /\ ev.kind.ce # "" THEN Bump(4) ELSE TRUE
         /\ Chk(line, ev.got # "panic", "C16.nopanic", <<ev.kind>>)
         /\ Chk(line, ev.got = "panic" \/ ev.got = Outcome(ev.kind), "C16.outcome", <<ev.kind, ev.got>>)
         /\ ev.got = "ok" /\ Outcome(ev.kind) = "ok" =>
              /\ Chk(line, ev.equal, "C16.equal", <<ev.kind>>)
              /\ Chk(line, ev.numExact, "C16.numbers", <<ev.kind>>)
    [] ev.e = "eend"  -> Chk(line, ev.acq = ev.rel, "C16.released", <<ev.acq, ev.rel>>)
    [] ev.e = "ecase" -> Bump(5)
    [] OTHER -> TRUE

Init == l = 1
Next == /\ l <= Len(Trace) /\ l' = l + 1 /\ Check(l, Trace[l]) /\ TLCSet(1, l)
Spec == Init /\ [][Next]_l
ASSUME \A k \in 1..5 : TLCSet(k, 0)
AllConsumed ==
  /\ PrintT("COUNTERS " \o ToJson([k \in 2..5 |-> TLCGet(k)]))
  /\ IF TLCGet(1) = Len(Trace) THEN PrintT("CONSUMED " \o ToString(Len(Trace)))
     ELSE PrintT("STOPPED-AT " \o ToString(TLCGet(1)))
=============================================================================

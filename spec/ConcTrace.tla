----------------------------- MODULE ConcTrace -----------------------------
(***************************************************************************)
(* Trace validation for C12: responses obtained while a mutator goroutine  *)
(* changed the registration state.  The harness logs for every response    *)
(* the window [lo, hi] of registration states that existed between the     *)
(* request's start and end (from one atomic event counter shared with the  *)
(* mutator) and what a fresh container answers in each of those states.    *)
(*   C12.window    - the answer is the answer of some state in the window  *)
(*                   (this includes isolation: when every state of the     *)
(*                   window gives the same answer, that answer is demanded)*)
(*   C12.final     - after two mutator goroutines on disjoint services are *)
(*                   done, the container answers like a fresh one holding  *)
(*                   what both histories leave behind (no lost update)     *)
(*   C12.race      - a report of the Go race detector with a go-restful    *)
(*                   frame (events added by the driver from GORACE logs)   *)
(*   C12.deadlock  - a round did not finish (watchdog)                     *)
(*   C12.panic     - a mutating operation panicked                         *)
(***************************************************************************)
EXTENDS Integers, Sequences, FiniteSets, Json, IOUtils, TLC

Trace == ndJsonDeserialize(IOEnv.TRACE_FILE)
VARIABLES l
Mis(line, clause, d) == PrintT("MISMATCH " \o ToJson([line |-> line, clause |-> clause, out |-> 0, variant |-> d]))
Bump(k) == TLCSet(k, TLCGet(k) + 1)
\* registers: 1 line, 2 responses judged, 3 responses whose window spans >= 2 states (a change
\* was in flight), 4 of those with >= 2 different candidate answers, 5 rounds

Check(line, ev) ==
  CASE ev.e = "cresp" ->
         /\ Bump(2)
         /\ IF ev.hi > ev.lo THEN Bump(3) ELSE TRUE
         /\ IF Len(ev.cands) >= 2 THEN Bump(4) ELSE TRUE
         /\ IF \E i \in 1..Len(ev.cands) : ev.cands[i] = ev.obs THEN TRUE
            ELSE Mis(line, "C12.window", <<ev.key, ev.obs, ev.cands>>)
    \* two mutators on disjoint services: when both are done nothing may be lost or resurrected
    [] ev.e = "cfinal" -> Bump(2) /\ (IF ev.obs = ev.want THEN TRUE ELSE Mis(line, "C12.final", <<ev.key, ev.obs, ev.want>>))
    [] ev.e = "crace"  -> Mis(line, "C12.race", ev.frames)
    [] ev.e = "cstuck" -> Mis(line, "C12.deadlock", <<ev.round>>)
    \* the driver process was ended by the library (os.Exit in Add: a root path the histories say is
    \* absent was still registered - the registration state diverged from every history)
    [] ev.e = "cexit"  -> Mis(line, "C12.final", <<"process exited", ev.code>>)
    [] ev.e = "cpanic" -> Mis(line, "C12.panic", <<ev.pv>>)
    [] ev.e = "chist"  -> Bump(5)
    [] OTHER -> TRUE

Init == l = 1
Next == /\ l <= Len(Trace) /\ l' = l + 1 /\ Check(l, Trace[l]) /\ TLCSet(1, l)
Spec == Init /\ [][Next]_l
ASSUME \A k \in 1..5 : TLCSet(k, 0)
AllConsumed ==
  /\ PrintT("COUNTERS " \o ToJson([k \in 2..5 |-> TLCGet(k)]))
  /\ IF TLCGet(1) = Len(Trace) THEN PrintT("CONSUMED " \o ToString(Len(Trace)))
     ELSE PrintT("STOPPED-AT " \o ToString(TLCGet(1)))
=============================================================================

--------------------------- MODULE MC_Negotiation ---------------------------
(***************************************************************************)
(* Exhaustive small-scope exploration of content negotiation (C05).        *)
(* State = (Produces, registered writers, default type, parsed ranges).    *)
(* The Accept header is rendered from the ranges in every whitespace /     *)
(* parameter style inside the invariant.  TLC checks theorems of Layer A   *)
(* (membership, no-406-after-admission, whitespace invariance) and that    *)
(* the implementation-shaped EntityWriter (Layer B) stays inside Layer A,  *)
(* and exports every case for replay on the real Response.WriteEntity.     *)
(***************************************************************************)
EXTENDS Negotiation, Json, TLC

CONSTANTS Tier, CheckRefinement

J == "application/json"
X == "application/xml"
V == "application/vnd.Acme.X+json"
C == "text/x-custom"
Builtin == {J, X}
AllReg == {J, X, V, C}

Medias == IF Tier = "quick" THEN {J, X, "*/*", "text/plain", "application/*"}
          ELSE {J, X, V, "*/*", "text/plain", "application/*"}
Qs == IF Tier = "quick" THEN {"", "0.5", "0"} ELSE {"", "0.1", "0.5", "0.8", "1", "0"}
Range1 == [media : Medias, q : Qs]
RangeSeqs == {<<r>> : r \in Range1} \cup {<<a, b>> : a \in Range1, b \in Range1}
             \cup (IF Tier = "quick" THEN {} ELSE
                   {<<a, b, c>> : a \in [media : {J, X, "*/*"}, q : {"", "0.5"}], b \in [media : {J, X, V}, q : {"", "0.8"}],
                                  c \in [media : {"*/*", "text/plain"}, q : {"", "0.1"}]})

ProdPool == IF Tier = "quick" THEN {J, X, V} ELSE AllReg
ProdSeqs == {<<a>> : a \in ProdPool} \cup {<<p[1], p[2]>> : p \in {x \in ProdPool \X ProdPool : x[1] # x[2]}}
            \cup (IF Tier = "quick" THEN {} ELSE
                  {<<p[1], p[2], p[3]>> : p \in {x \in ProdPool \X ProdPool \X ProdPool :
                       x[1] # x[2] /\ x[1] # x[3] /\ x[2] # x[3] /\ x[1] \in {J, X}}})
Defaults == IF Tier = "quick" THEN {"", J} ELSE {"", J, X}

\* styles: 1 compact, 2 SP before ';', 3 SP after ';', 4 SP around '=', 5 SP around ',',
\*         6 an extra parameter before q, 7 an extra parameter after q
Styles == 1..7
RenderRange(r, st) ==
  IF r.q = "" THEN (IF st \in {6, 7} THEN r.media \o ";ext=1" ELSE r.media)
  ELSE CASE st = 2 -> r.media \o " ;q=" \o r.q
         [] st = 3 -> r.media \o "; q=" \o r.q
         [] st = 4 -> r.media \o ";q = " \o r.q
         [] st = 6 -> r.media \o ";ext=1;q=" \o r.q
         [] st = 7 -> r.media \o ";q=" \o r.q \o ";ext=1"
         [] OTHER  -> r.media \o ";q=" \o r.q
Render(rs, st) == JoinWith([i \in 1..Len(rs) |-> RenderRange(rs[i], st)], IF st = 5 THEN " , " ELSE ",")

VARIABLES phase, prod, reg, dflt, rs
vars == <<phase, prod, reg, dflt, rs>>
Init == phase = 0 /\ prod = <<>> /\ reg = {} /\ dflt = "" /\ rs = <<>>
Next == \/ /\ phase = 0 /\ phase' = 1
           /\ reg' \in {Builtin, AllReg}
           \* at least one entry has a registered writer (the others need not)
           /\ prod' \in {p \in ProdSeqs : SeqToSet(p) \cap reg' # {}}
           /\ dflt' \in Defaults
           /\ rs' \in RangeSeqs
        \/ phase = 1 /\ phase' = 2 /\ UNCHANGED <<prod, reg, dflt, rs>>
Spec == Init /\ [][Next]_vars

Check ==
  phase = 2 =>
    LET canon == Render(rs, 1)
        best  == BestSet(prod, reg, canon)
    IN \* membership
       /\ best \subseteq SeqToSet(prod) \cap reg
       \* a request admissible on Accept grounds - by an entry that has a writer - always has a representation
       /\ AcceptMust(SelectSeq(prod, LAMBDA p : p \in reg), canon) => best # {}
       \* optional whitespace and extra parameters do not change the allowed choice
       /\ \A st \in Styles : BestSet(prod, reg, Render(rs, st)) = best
       \* Layer B inside Layer A (for requests the real router admits; whatever default type is set)
       /\ CheckRefinement =>
            \A st \in Styles :
               MatchesAcceptG(prod, Render(rs, st)) /\ best # {} => ImplChoice(prod, reg, Render(rs, st), dflt) \subseteq best
       \* ... and membership whatever the header looks like (also with a malformed q-value, which drops the range)
       /\ CheckRefinement =>
            \A hdr \in {Render(rs, st) : st \in Styles} \cup {Render(rs, 1) \o ";q=x", "*/*;q=x," \o Render(rs, 1)} :
               ImplChoice(prod, reg, hdr, dflt) \subseteq SeqToSet(prod) \cap reg
       /\ PrintT("CASE " \o ToJson([produces |-> prod, registered |-> SetToSeq(reg), def |-> dflt,
                                     accs |-> [st \in Styles |-> Render(rs, st)]]))
=============================================================================

------------------------------ MODULE Registry ------------------------------
(***************************************************************************)
(* Registration state of a Container (C11, sequential part of C12).        *)
(* Layer A: the CONTENT - ordered WebService roots and plain handlers.     *)
(* What a container answers depends on the content only (history           *)
(* independence holds in A by construction).                               *)
(* Layer B: what container.go keeps: webServices, a ServeMux (pattern ->   *)
(* owner), isRegisteredOnRoot, and Add / addHandler / Remove / Handle as   *)
(* the code performs them, including a small model of net/http.ServeMux    *)
(* lookup (exact pattern, longest "/"-terminated prefix, "/p" -> "/p/"     *)
(* redirect) and HandleFunc panicking on a duplicate pattern.              *)
(* Constants select the pinned behaviour or the repaired one:              *)
(*   LegacyRemoveScan  - Remove's addHandler scans the list being replaced *)
(*                       (every service looks "already mapped")            *)
(*   LegacyRootCompare - addHandler compares root paths, not mux patterns  *)
(*                       (two roots with one fixed prefix panic)           *)
(*   HandlersSurviveRemove - plain handlers are re-registered by Remove    *)
(***************************************************************************)
EXTENDS Strings

CONSTANTS LegacyRemoveScan, LegacyRootCompare, HandlersSurviveRemove

\* container.go:303 fixedPrefixPath
FixedPrefix(root) == LET k == Index(root, "{") IN IF k = 0 THEN root ELSE SubSeq(root, 1, k - 1)
\* patterns a service root wants on the mux
WantedPatterns(root) ==
  LET p == FixedPrefix(root) IN
  IF p = "/" \/ p = "" THEN <<"/">>
  ELSE IF HasSuffix(p, "/") THEN <<p>> ELSE <<p, p \o "/">>
OnRoot(root) == LET p == FixedPrefix(root) IN p = "/" \/ p = ""

\* ---------- net/http.ServeMux ----------
\* mux: function pattern -> owner ("D" = container dispatch, otherwise a handler id)
EmptyMux == [p \in {} |-> ""]
MuxAdd(mux, p, owner) == [q \in DOMAIN mux \cup {p} |-> IF q = p THEN owner ELSE mux[q]]
\* result of looking a URL path up: <<"owner", o>>, <<"redirect">>, <<"notfound">>
MuxLookup(mux, u) ==
  IF u \in DOMAIN mux THEN <<"owner", mux[u]>>
  ELSE IF (u \o "/") \in DOMAIN mux THEN <<"redirect">>
  ELSE LET pre == {p \in DOMAIN mux : HasSuffix(p, "/") /\ HasPrefix(u, p)} IN
       IF pre = {} THEN <<"notfound">>
       ELSE <<"owner", mux[CHOOSE p \in pre : \A q \in pre : Len(q) <= Len(p)]>>

\* ---------- Layer A ----------
\* content: [services : Seq(root), handlers : Seq(<<pattern, id>>)]
EmptyContent == [services |-> <<>>, handlers |-> <<>>]
AAdd(c, root) == [c EXCEPT !.services = Append(@, root)]
ARemove(c, root) == [c EXCEPT !.services = SelectSeq(@, LAMBDA r : r # root)]
AHandle(c, pat, id) == [c EXCEPT !.handlers = Append(@, <<pat, id>>)]

\* the mux a freshly built container with this content has: services added in order (none is
\* registered after one on "/"), every wanted pattern registered once, then the handlers
RECURSIVE FreshSvc(_, _, _, _)
FreshSvc(svcs, i, mux, onRoot) ==
  IF i > Len(svcs) \/ onRoot THEN mux
  ELSE LET w == WantedPatterns(svcs[i])
           m1 == IF w[1] \in DOMAIN mux THEN mux ELSE MuxAdd(mux, w[1], "D")
           m2 == IF Len(w) = 2 /\ w[2] \notin DOMAIN m1 THEN MuxAdd(m1, w[2], "D") ELSE m1
       IN FreshSvc(svcs, i + 1, m2, OnRoot(svcs[i]))
RECURSIVE FreshHandlers(_, _, _)
FreshHandlers(hs, i, mux) ==
  IF i > Len(hs) THEN mux ELSE FreshHandlers(hs, i + 1, MuxAdd(mux, hs[i][1], hs[i][2]))
FreshMux(c) == FreshHandlers(c.handlers, 1, FreshSvc(c.services, 1, EmptyMux, FALSE))

\* ---------- Layer B ----------
\* b: [ws : Seq(root), mux, onRoot : BOOLEAN, panicked : BOOLEAN, hs : Seq(<<pattern, id>>)]
EmptyB == [ws |-> <<>>, mux |-> EmptyMux, onRoot |-> FALSE, panicked |-> FALSE, hs |-> <<>>]

\* HandleFunc: panics on a duplicate pattern
BHandleFunc(st, p, owner) ==
  IF st.panicked THEN st
  ELSE IF p \in DOMAIN st.mux THEN [st EXCEPT !.panicked = TRUE]
  ELSE [st EXCEPT !.mux = MuxAdd(@, p, owner)]

\* addHandler(service, mux): st carries the mux being filled; `scan` is the list the
\* already-mapped test looks at
PatternsOf(roots) == UNION {SeqToSet(WantedPatterns(roots[i])) : i \in 1..Len(roots)}
BAddHandler(st, root, scan) ==
  IF OnRoot(root) THEN [BHandleFunc(st, "/", "D") EXCEPT !.onRoot = TRUE]
  ELSE IF LegacyRootCompare
       THEN IF root \in SeqToSet(scan) THEN st
            ELSE LET w == WantedPatterns(root)
                     s1 == BHandleFunc(st, w[1], "D")
                 IN IF Len(w) = 2 THEN BHandleFunc(s1, w[2], "D") ELSE s1
       ELSE LET w == WantedPatterns(root)
                have == PatternsOf(scan)
                s1 == IF w[1] \in have THEN st ELSE BHandleFunc(st, w[1], "D")
            IN IF Len(w) = 2 /\ w[2] \notin have THEN BHandleFunc(s1, w[2], "D") ELSE s1

\* Container.Add (root different from all present ones)
BAdd(b, root) ==
  LET s1 == IF b.onRoot THEN b ELSE BAddHandler(b, root, b.ws) IN
  IF s1.panicked THEN s1 ELSE [s1 EXCEPT !.ws = Append(@, root)]

\* Container.Remove: new mux, re-register every remaining service
RECURSIVE BRebuild(_, _, _, _)
BRebuild(b, removed, i, acc) ==   \* acc: [ws (new list), mux, onRoot, panicked]
  IF i > Len(b.ws) THEN acc
  ELSE IF b.ws[i] = removed THEN BRebuild(b, removed, i + 1, acc)
  ELSE LET s1 == IF acc.onRoot THEN acc
                 ELSE BAddHandler(acc, b.ws[i], IF LegacyRemoveScan THEN b.ws ELSE acc.ws)
       IN BRebuild(b, removed, i + 1, [s1 EXCEPT !.ws = Append(@, b.ws[i])])
BRemove(b, root) ==
  LET acc == BRebuild(b, root, 1, [EmptyB EXCEPT !.hs = b.hs])
      withH == IF HandlersSurviveRemove THEN [acc EXCEPT !.mux = FreshHandlers(b.hs, 1, @)] ELSE acc
  IN withH

\* Container.Handle: registers on the current mux
BHandle(b, pat, id) ==
  LET s1 == BHandleFunc(b, pat, id) IN IF s1.panicked THEN s1 ELSE [s1 EXCEPT !.hs = Append(@, <<pat, id>>)]
=============================================================================

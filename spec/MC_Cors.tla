------------------------------ MODULE MC_Cors ------------------------------
(***************************************************************************)
(* Exhaustive exploration of the CORS filter model.  State = (filter       *)
(* configuration, methods currently stored on the filter object, number of *)
(* requests served).  In every state every request of the pool is answered *)
(* by the implementation-shaped filter (Layer B) and the answer is judged  *)
(* by every clause of Layer A (C08, C09).  Serving a request may change    *)
(* what the filter stores (only in the PointerReceiver counter-model), so  *)
(* TLC explores histories of preflights to different URLs.                 *)
(***************************************************************************)
EXTENDS Cors, Json, TLC

CONSTANTS Tier, MaxReq

Quick == Tier = "quick"
\* (a list of blank entries is a restriction nobody satisfies)
Domains == IF Quick THEN {<<>>, <<"http://a.com">>, <<"https://A.com", ".*">>, <<"">>}
           ELSE {<<>>, <<"http://a.com">>, <<"https://A.com", ".*">>, <<"a.com">>, <<"http://a.com", "http://b.org">>, <<"">>, <<"", " ">>}
Preds == IF Quick THEN {"none", "suffix"} ELSE {"none", "suffix", "never"}
MethodCfgs == IF Quick THEN {<<>>, <<"GET">>} ELSE {<<>>, <<"GET">>, <<"GET", "PUT">>}
HeaderCfgs == IF Quick THEN {<<>>, <<"x-a", "X-B">>, <<"*">>} ELSE {<<>>, <<"X-A">>, <<"x-a", "X-B">>, <<"*">>}
Extras == IF Quick THEN {<<<<"X-E">>, 60>>} ELSE {<<<<>>, 0>>, <<<<"X-E", "X-F">>, 60>>}
Cfgs == {[domains |-> d, pred |-> p, methods |-> m, headers |-> h, expose |-> e[1], cookies |-> c, maxAge |-> e[2]] :
           d \in Domains, p \in Preds, m \in MethodCfgs, h \in HeaderCfgs, e \in Extras, c \in BOOLEAN}

Origins == IF Quick THEN {"", "http://a.com", "HTTP://A.COM", "http://a.com.evil.io", "evilhttp://a.com", "https://x.example.com"}
           ELSE {"", "http://a.com", "HTTP://A.COM", "http://a.com.evil.io", "evilhttp://a.com", "http://a.co",
                 "https://x.example.com", "https://example.com", "null", "a.com", ".*"}
Acrms == IF Quick THEN {"", "GET", "PUT"} ELSE {"", "GET", "PUT", "DELETE"}
Acrhs == IF Quick THEN {"", "X-A", "x-a, X-B"} ELSE {"", "X-A", "x-a, X-B", "X-C", "X-A,X-C", " x-b "}
Urls == {"/u1", "/u2"}
\* a second Access-Control-Request-Headers field line on some preflights (an allowed first line, anything after it)
Reqs == {[m |-> m, origin |-> o, acrm |-> a, acrh |-> h, acrh2 |-> "", url |-> u] :
           m \in {"GET", "OPTIONS"}, o \in Origins, a \in Acrms, h \in Acrhs, u \in Urls}
        \cup {[m |-> "OPTIONS", origin |-> o, acrm |-> "GET", acrh |-> "X-A", acrh2 |-> h2, url |-> "/u1"] :
                o \in Origins, h2 \in {"X-Secret", "x-a, X-B"}}

\* the model's container: /u1 serves GET, /u2 serves GET and PUT
RoutableSeq(url) == IF url = "/u1" THEN <<"GET">> ELSE <<"GET", "PUT">>

VARIABLES cfg, stored, n
vars == <<cfg, stored, n>>
Init == cfg \in Cfgs /\ stored = cfg.methods /\ n = 0
Next == /\ n < MaxReq /\ n' = n + 1 /\ cfg' = cfg
        /\ \E req \in Reqs : stored' = ImplFilter(cfg, stored, req, RoutableSeq(req.url)).stored
Spec == Init /\ [][Next]_vars

AsResp(r) == [ac |-> r.ac, ran |-> IF r.pass THEN 1 ELSE 0, later |-> IF r.pass THEN 1 ELSE 0,
              proj |-> IF r.pass THEN "twin" ELSE "filter"]
ClausesHold(req) ==
  LET r == AsResp(ImplFilter(cfg, stored, req, RoutableSeq(req.url)))
      routable == SeqToSet(RoutableSeq(req.url))
  IN /\ C08NoGrant(cfg, req, r, "twin") /\ C08Echo(cfg, req, r) /\ C08Cred(cfg, req, r)
     /\ C09Alone(cfg, req, r) /\ C09Refuse(cfg, req, r, routable) /\ C09Grant(cfg, req, r, routable)
     /\ C09Actual(cfg, req, r, "twin") /\ C09Headers(cfg, r)
Refines == \A req \in Reqs : ClausesHold(req)
\* the two readings of "allowed origin" coincide on every pool element
OriginReadingsAgree == \A req \in Reqs : ImplOriginAllowed(cfg, req.origin) = OriginAllowed(cfg, req.origin)
Export == n = 0 => PrintT("CASE " \o ToJson(cfg))
ASSUME PrintT("POOL " \o ToJson(SetToSeq(Reqs)))
=============================================================================

----------------------------- MODULE MC_Routing -----------------------------
(***************************************************************************)
(* Exhaustive small-scope exploration of the routing specification.        *)
(* A state is a route table drawn from the pools of the chosen Mode/Tier;  *)
(* requests are DERIVED from the table (every template instantiated with   *)
(* matching and near-miss segment values) and quantified inside the        *)
(* invariant.  In every state TLC                                          *)
(*   (1) checks design theorems of Layer A (totality, determinacy where    *)
(*       nothing is uncertain, trailing-slash invariance, dominance being  *)
(*       a strict order, permutation invariance),                          *)
(*   (2) checks that the implementation-shaped model of CurlyRouter        *)
(*       (CurlyImpl, Layer B) only produces outcomes Layer A allows,       *)
(*   (3) prints the case as JSON; the Go harness replays every case on the *)
(*       real routers and the observations are judged by RoutingTrace.     *)
(***************************************************************************)
EXTENDS Routing, Jsr311Impl, Json, TLC, SequencesExt

CONSTANTS Mode, Tier

JSONM == "application/json"
XMLM  == "application/xml"

R0(m, p) == [m |-> m, p |-> p, cons |-> <<>>, prod |-> <<>>, conds |-> <<>>, noct |-> <<>>]

\* ---------------- pools ----------------
PathTemplates ==
  IF Tier = "quick"
  THEN {"", "/a", "/{x}", "/{n:[0-9]+}", "/{s}.f", "/a/{x}", "/{x}/b", "/a/{t:*}", "/{x}:go"}
  ELSE {"", "/", "/a", "/b/", "/{x}", "/{n:[0-9]+}", "/{c:[A-Z][A-Z]}", "/{s}.f", "/a/{x}", "/{x}/b",
        "/a/b", "/{x}/{y}", "/a/{t:*}", "/{t:*}", "/a:go", "/{x}:go", "/a/{n:[0-9]{2}}", "a/{x}/",
        "/{k:(cats|dogs)}", "/{n:[0-9]+}/{y}", "/{y}/{n:[0-9]+}"}
PathRoots ==
  IF Tier = "quick" THEN {"/", "/r", "/{w:[0-9]+}"}
  ELSE {"/", "/r", "/r/", "/r/{w}", "/{w}", "/{w:[0-9]+}", "/{w}.f"}
PathMethods == {"GET", "POST"}

CommonTemplates ==
  IF Tier = "quick" THEN {"", "/a", "/{x}", "/a/{x}", "/{x}/b", "/aaaa/{x}"}
  ELSE {"", "/", "/a", "/b", "/bb", "/{x}", "/a/{x}", "/{x}/b", "/a/b", "/{x}/{y}", "/aaaa/{x}", "/a/{x}/b"}
CommonRoots == IF Tier = "quick" THEN {"/", "/r", "/r/a"} ELSE {"/", "/r", "/r/a", "/a", "/r/"}

\* ---------------- tables ----------------
Routes1(templates, methods) == {R0(m, p) : m \in methods, p \in templates}
\* one route, or two different routes in one fixed order (the other registration order is
\* covered by the PermInvariant theorem and, on the real code, by the permuted builds of C03)
RouteSeqs(rs, maxLen) ==
  LET L == SetToSeq(rs) IN
  {<<r>> : r \in rs} \cup
  (IF maxLen >= 2 THEN {<<L[p[1]], L[p[2]]>> : p \in {x \in (1..Len(L)) \X (1..Len(L)) : x[1] < x[2]}} ELSE {})
Svc(root, routes) == [root |-> root, routes |-> routes]

HeaderRoutes ==
  LET cs == {<<>>, <<JSONM>>}
      ps == IF Tier = "quick" THEN {<<>>, <<JSONM>>} ELSE {<<>>, <<JSONM>>, <<XMLM, JSONM>>}
      ks == {<<>>, <<1>>}
      ms == {"GET", "POST"}
      ts == IF Tier = "quick" THEN {"/a"} ELSE {"/a", "/{x}"}
  IN {[m |-> m, p |-> p, cons |-> c, prod |-> pr, conds |-> k, noct |-> <<>>] :
        m \in ms, p \in ts, c \in cs, pr \in ps, k \in ks}

Tables ==
  CASE Mode = "path" ->
         {<<Svc(root, rs)>> : root \in PathRoots, rs \in RouteSeqs(Routes1(PathTemplates, PathMethods), 2)}
    [] Mode = "roots" ->
         \* "/ra": a root that continues another one as a string but not as a path
         LET roots == IF Tier = "quick" THEN {"/", "/r", "/r/a", "/ra", "/r/", "/{w}", "/r/{w}", "/{w}/a", "/{w:[0-9]+}", "/{v:[a-z]+}"}
                      ELSE {"/", "/r", "/r/a", "/ra", "/{w}", "/r/{w}", "/{w}/a", "/{w:[0-9]+}", "/{v:[a-z]+}", "/r/{w:[0-9]+}", "/r/"}
             rts == {<<R0("GET", "")>>, <<R0("GET", "/a")>>, <<R0("GET", "/{x}")>>}
         IN {<<Svc(p[1], a), Svc(p[2], b)>> : p \in {x \in roots \X roots : x[1] # x[2]}, a \in rts, b \in rts}
    [] Mode = "roots4" ->
         \* crossing roots of four tokens whose CurlyRouter scores are equal (10*(4+1)+2 = 10*(3+2)+2)
         LET rts == {<<R0("GET", "")>>, <<R0("GET", "/{z}")>>} IN
         {<<Svc("/a/{x}/{y}/d", a), Svc("/{x}/b/c/{y}", b)>> : a \in rts, b \in rts}
    [] Mode = "regexpos" ->
         \* the byte-identical regex token at different segment positions; a regex with its own group
         {<<Svc(root, rs)>> : root \in {"/r", "/{w:(cats|dogs)}"},
            rs \in RouteSeqs(Routes1({"/{n:[0-9]+}/{y}", "/{y}/{n:[0-9]+}", "/{k:(cats|dogs)}/{y}", "/{y}/{c:(a|b)-(c|d)}"},
                                    IF Tier = "quick" THEN {"GET"} ELSE {"GET", "DELETE"}), 2)}
    [] Mode = "media" ->
         \* a literal and a variable route of one method with different Produces (ranking must not follow Accept)
         LET ps == {<<JSONM>>, <<XMLM>>, <<XMLM, JSONM>>} IN
         {<<Svc("/r", <<[R0("GET", "/a") EXCEPT !.prod = p1], [R0("GET", "/{x}") EXCEPT !.prod = p2]>>)>> : p1 \in ps, p2 \in ps}
    [] Mode = "media2" ->
         \* two routes of one method and template that only Consumes / Produces tell apart
         LET cs == {<<>>, <<JSONM>>, <<XMLM>>}
             ps == {<<JSONM>>, <<XMLM>>}
             rts == {[R0("POST", "/a") EXCEPT !.cons = c, !.prod = p] : c \in cs, p \in ps}
         IN {<<Svc("/r", <<p[1], p[2]>>)>> : p \in {x \in rts \X rts : x[1] # x[2]}}
    [] Mode = "rootvar" ->
         \* a root path with a variable and more tokens than variables; routes with ONE variable each, under different names
         {<<Svc("/r/{w}", rs)>> : rs \in RouteSeqs(Routes1({"/{x}", "/a/{y}", "/{z}/b", "/{n:[0-9]+}"}, {"GET"}), 2)}
    [] Mode = "sufroot" ->
         \* a WebService on "/" next to services whose root path has a {v}suffix token / a regex parameter; routes with a {v}suffix token
         LET rts == {<<R0("GET", "/a")>>, <<R0("GET", "/{x}")>>, <<R0("GET", "/{s}.f")>>} IN
         {<<Svc("/", a), Svc(r2, b)>> : r2 \in {"/{w}.f", "/{w:[0-9]+}"}, a \in {<<R0("GET", "/{x}/a")>>, <<R0("GET", "/{x}/{y}")>>}, b \in rts}
    [] Mode = "order3" ->
         \* three routes of one service that can all match one URL (ranking beyond the best match)
         LET pool == SetToSeq(Routes1({"/a/b", "/a/{x}", "/{x}/b", "/{x}/{y}"}, {"GET", "PUT"})) IN
         {<<Svc("/r", <<pool[t[1]], pool[t[2]], pool[t[3]]>>)>> :
            t \in {x \in (1..Len(pool)) \X (1..Len(pool)) \X (1..Len(pool)) : x[1] < x[2] /\ x[2] < x[3]}}
    [] Mode = "agree" ->
         {<<Svc(root, rs)>> : root \in CommonRoots, rs \in RouteSeqs(Routes1(CommonTemplates, {"GET", "POST"}), 2)}
         \cup {<<Svc("/r", a), Svc(r2, b)>> :
                 r2 \in {"/", "/r/a"}, a \in RouteSeqs(Routes1({"/a", "/{x}", "/a/{x}"}, {"GET"}), 1),
                 b \in RouteSeqs(Routes1({"", "/{x}", "/a"}, {"GET", "POST"}), 1)}
    [] Mode = "headers" ->
         {<<Svc("/r", rs)>> : rs \in RouteSeqs(HeaderRoutes, IF Tier = "quick" THEN 1 ELSE 2)}
         \cup (IF Tier = "quick"
               THEN {<<Svc("/r", <<a, b>>)>> : a \in {r \in HeaderRoutes : r.m = "GET" /\ r.conds = <<>>},
                                               b \in {r \in HeaderRoutes : r.m = "POST"}}
               ELSE {})

\* ---------------- requests derived from a table ----------------
SegValues(p) ==
  CASE p.kind = "lit" /\ p.verb = ""  -> {<<p.lit>>, <<"zz">>}
    \* custom verbs: exact, missing, another verb, the same letters without the colon, a longer
    \* verb ending in the same letters
    [] p.kind = "lit" /\ p.verb # ""  -> {<<p.lit \o p.verb>>, <<p.lit>>, <<p.lit \o ":undo">>,
                                          <<p.lit \o SubSeq(p.verb, 2, Len(p.verb))>>, <<p.lit \o ":x" \o SubSeq(p.verb, 2, Len(p.verb))>>}
    [] p.kind = "var" /\ p.verb # ""  -> {<<"1" \o p.verb>>, <<"1">>, <<p.verb>>,
                                          <<"1" \o SubSeq(p.verb, 2, Len(p.verb))>>, <<"1:x" \o SubSeq(p.verb, 2, Len(p.verb))>>}
    [] p.kind = "var" /\ p.suf # ""   -> {<<"a" \o p.suf>>, <<"a">>, <<p.suf>>, <<"f">>}
    [] p.kind = "var"                 -> IF Tier = "quick" THEN {<<"a">>, <<"1">>} ELSE {<<"a">>, <<"1">>, <<"">>}
    [] p.kind = "re"                  -> {<<"1">>, <<"a">>, <<"1a">>, <<"AB">>, <<"12">>, <<"cats">>, <<"xdogs">>}
                                         \cup (IF Mode = "regexpos" THEN {<<"a-c">>} ELSE {})
    [] p.kind = "tail"                -> {<<>>, <<"a">>, <<"a", "b">>}

RECURSIVE Instances(_, _)
Instances(pt, i) ==
  IF i > Len(pt) THEN {<<>>}
  ELSE {v \o rest : v \in SegValues(pt[i]), rest \in Instances(pt, i + 1)}

\* two templates of one service with the same number of tokens: mix their values position-wise
\* (requests that both templates match, e.g. /aaaa/b for /aaaa/{x} and /{y}/b)
RECURSIVE MixInstances(_, _, _)
MixInstances(p1, p2, i) ==
  IF i > Len(p1) THEN {<<>>}
  ELSE {v \o rest : v \in {x \in SegValues(p1[i]) \cup SegValues(p2[i]) : Len(x) = 1},
                     rest \in MixInstances(p1, p2, i + 1)}

PathOf(segs) == "/" \o JoinWith(segs, "/")
DerivedPaths(T) ==
  LET base == UNION {UNION {Instances(T[w].routes[r].pt, 1) : r \in 1..Len(T[w].routes)} : w \in 1..Len(T)}
      mixed == UNION {UNION {MixInstances(T[w].routes[p[1]].pt, T[w].routes[p[2]].pt, 1) :
                               p \in {x \in (1..Len(T[w].routes)) \X (1..Len(T[w].routes)) :
                                        x[1] < x[2] /\ Len(T[w].routes[x[1]].pt) = Len(T[w].routes[x[2]].pt)}} :
                        w \in 1..Len(T)}
      \* ... and, for the root pools, templates of DIFFERENT services (URLs two roots both claim)
      AllR == UNION {{<<w, r>> : r \in 1..Len(T[w].routes)} : w \in 1..Len(T)}
      cross == IF Mode \in {"roots", "roots4", "sufroot"}
               THEN UNION {MixInstances(T[p[1][1]].routes[p[1][2]].pt, T[p[2][1]].routes[p[2][2]].pt, 1) :
                             p \in {x \in AllR \X AllR : x[1][1] < x[2][1] /\
                                      Len(T[x[1][1]].routes[x[1][2]].pt) = Len(T[x[2][1]].routes[x[2][2]].pt)}}
               ELSE {}
      more == {s \o <<"a">> : s \in base} \cup {SubSeq(s, 1, Len(s) - 1) : s \in {x \in base : Len(x) > 0}}
  IN {PathOf(s) : s \in base \cup more \cup mixed \cup cross} \cup {"/"}

Rq(m, path, ct, acc, clen, clh, conds) ==
  [m |-> m, path |-> path, ct |-> ct, acc |-> acc, clen |-> clen, clh |-> clh, conds |-> conds]

Requests(T) ==
  IF Mode = "media"
  THEN {Rq("GET", p, "", acc, 0, "", <<>>) : p \in {"/r/a", "/r/b"},
          acc \in {"", JSONM, XMLM, XMLM \o ", " \o JSONM, JSONM \o ";q=0.5, " \o XMLM, "*/*", "text/html"}}
  ELSE IF Mode = "media2"
  THEN {Rq("POST", "/r/a", ct, acc, 3, "3", <<>>) : ct \in {"", JSONM, XMLM}, acc \in {"", JSONM, XMLM, "text/html"}}
  ELSE IF Mode = "headers"
  THEN {Rq(m, "/r/a", ct, acc, b[1], b[2], k) :
          m \in {"GET", "POST", "PUT"},
          ct \in {"", JSONM, "text/plain"},
          acc \in (IF Tier = "quick" THEN {"", JSONM, XMLM} ELSE {"", JSONM, XMLM, "*/*", "text/*", JSONM \o ";q=0"}),
          b \in {<<0, "">>, <<0, "0">>, <<3, "3">>},
          k \in {<<>>, <<1>>}}
  ELSE {Rq(m, p, "", "", 0, "", <<>>) : m \in {"GET", "POST", "PUT"}, p \in DerivedPaths(T)}

\* ---------------- candidate outcomes ----------------
CanonParams(R, rt, path) ==
  LET idx == SetToSortSeq(VarIdx(R.pt), <) IN
  [k \in 1..Len(idx) |->
     <<R.pt[idx[k]].name,
       IF R.pt[idx[k]].kind = "tail" THEN TailJoin(rt, idx[k])
       ELSE IF idx[k] <= Len(rt) THEN Value(R.pt[idx[k]], rt[idx[k]]) ELSE "">>]

MethodsOf(T) == UNION {{T[w].routes[r].m : r \in 1..Len(T[w].routes)} : w \in 1..Len(T)}
ErrOut(st, allow) ==
  [k |-> "err", ws |-> 0, rt |-> 0, params |-> <<>>, st |-> st, allow |-> allow, ran |-> 0, selp |-> "", selm |-> ""]
RouteOut(T, w, r, req) ==
  [k |-> "route", ws |-> w, rt |-> r, params |-> CanonParams(T[w].routes[r], ReqToks(req), req.path),
   st |-> 200, allow |-> <<>>, ran |-> 1, selp |-> T[w].routes[r].full, selm |-> T[w].routes[r].m]
Candidates(T, req) ==
  {ErrOut(st, <<>>) : st \in {404, 406, 415}}
  \cup {ErrOut(405, SetToSeq(ms)) : ms \in SUBSET MethodsOf(T)}
  \cup UNION {{RouteOut(T, w, r, req) : r \in 1..Len(T[w].routes)} : w \in 1..Len(T)}
LegalSetC(T, req, c) == {o \in Candidates(T, req) : LegalC(T, req, c, o)}
LegalSet(prof, T, req) == LegalSetC(T, req, Ctx(prof, T, req))
Shape(o) == IF o.k = "route" THEN <<"route", o.ws, o.rt>> ELSE <<"err", o.st, SeqToSet(o.allow)>>
Shapes(L) == {Shape(o) : o \in L}

\* nothing about this (table, request) is left to a reading
Certain(prof, T, req) ==
  LET rt == ReqToks(req)   canon == Canon(req.path) IN
  /\ canon
  /\ \A w \in 1..Len(T) : ServiceClaim(T[w], rt, canon) # 1
  /\ Cardinality(BestMay(prof, T, rt, canon)) <= 1
  /\ \A w \in 1..Len(T) : LET F == RouteFacts(T[w], req, rt, canon) IN
                          \A r \in DOMAIN F : F[r].pm # 1 /\ F[r].am # 1

\* ---------------- theorems of Layer A ----------------
DominanceStrict(T) ==
  \A w \in 1..Len(T) : \A r1, r2 \in 1..Len(T[w].routes) :
     RouteDominates(T[w].routes[r1].pt, T[w].routes[r2].pt) => ~RouteDominates(T[w].routes[r2].pt, T[w].routes[r1].pt)
\* reversing the registration order (and renumbering) does not change what is allowed
Rev(s) == [i \in 1..Len(s) |-> s[Len(s) + 1 - i]]
RevTable(t) == Rev([w \in 1..Len(t) |-> [t[w] EXCEPT !.routes = Rev(@)]])
RevShape(t, sh) ==
  IF sh[1] = "route" THEN <<"route", Len(t) + 1 - sh[2], Len(t[sh[2]].routes) + 1 - sh[3]>> ELSE sh

Theorems(t, T, TR, req, co, jo) ==
  LET cC == Ctx("curly", T, req)
      LC == LegalSetC(T, req, cC)
      cJ == Ctx("jsr311", T, req)
      LJ == LegalSetC(T, req, cJ)
      errs == {o \in LC : o.k = "err"}
  IN \* totality: some outcome is always allowed, under either profile
     /\ LC # {} /\ LJ # {}
     \* determinacy: where nothing is left to a reading, exactly one error outcome (405 with one
     \* of the two Allow readings) or only routes
     /\ Certain("curly", T, req) =>
          \/ errs = {} /\ LC # {}
          \/ LC = errs /\ Cardinality({o.st : o \in errs}) = 1 /\ Cardinality(errs) <= 2
     \* C14 as a theorem of the specification
     /\ SlashQualifies("curly", T, req) =>
          Shapes(LC) = Shapes(LegalSet("curly", T, [req EXCEPT !.path = @ \o "/"]))
     \* C03 (order independence) as a theorem of the specification
     /\ {RevShape(t, sh) : sh \in Shapes(LC)} = Shapes(LegalSet("curly", TR, req))
     \* Layer B inside Layer A
     /\ \A o \in co : LegalC(T, req, cC, o)
     /\ \A o \in jo : LegalC(T, req, cJ, o)

VARIABLES phase, tbl
vars == <<phase, tbl>>
Init == phase = 0 /\ tbl = <<>>
Next == \/ phase = 0 /\ tbl' \in Tables /\ phase' = 1
        \/ phase = 1 /\ phase' = 2 /\ UNCHANGED tbl
Spec == Init /\ [][Next]_vars

\* C17 at model level: on the common fragment the implementation-shaped computeAllowedMethods lists exactly the
\* methods Layer A says are routable at the URL (no legal outcome is 404 or 405)
RoutableA(T, url) ==
  {m \in MethodsOf(T) :
     \A o \in LegalSet("curly", T, Rq(m, url, "", "", 0, "", <<>>)) : ~(o.k = "err" /\ o.st \in {404, 405})}
\* the repaired computeAllowedMethods: every method some route declares for which the router's answer is not 404 / 405
AllowedMethodsRouter(T, url) ==
  {m \in MethodsOf(T) : \A o \in CurlyOutcomes(T, Rq(m, url, "", "", 0, "", <<>>)) : ~(o.k = "err" /\ o.st \in {404, 405})}
AllowedImpl(T, url) ==
  IF OptionsViaRouter THEN AllowedMethodsRouter(T, url) ELSE AllowedMethodsImpl(T, url, CurlySelected(T, url))
\* ... and what Layer A leaves open: some / every legal outcome is neither 404 nor 405
RoutableMayA(T, url) ==
  {m \in MethodsOf(T) :
     \E o \in LegalSet("curly", T, Rq(m, url, "", "", 0, "", <<>>)) : ~(o.k = "err" /\ o.st \in {404, 405})}
OptionsTruthful(T) ==
  /\ (Mode = "agree" /\ CommonFragment(T)) =>
        \A url \in {p \in DerivedPaths(T) : Canon(p)} : AllowedImpl(T, url) = RoutableA(T, url)
  \* on every template form (the repaired code only): between the two readings
  /\ (OptionsViaRouter /\ Mode \in {"agree", "path"}) =>
        \A url \in DerivedPaths(T) : RoutableA(T, url) \subseteq AllowedImpl(T, url) /\ AllowedImpl(T, url) \subseteq RoutableMayA(T, url)
\* C14 for the OPTIONS filter: the same methods for p and for p/
OptionsSlash(T) ==
  (Mode \in {"agree", "path"}) =>
     \A url \in {p \in DerivedPaths(T) : SlashQualifies("curly", T, [path |-> p])} :
        AllowedImpl(T, url) = AllowedImpl(T, url \o "/")

\* what Layer B predicts the real CurlyRouter answers (compared with the real answers by the
\* conformance run: "model drift")
PredOf(co) == SetToSeq({<<o.k, o.ws, o.rt, o.st>> : o \in co})

Check ==
  phase = 2 =>
    LET T == Prepare(tbl)   TR == Prepare(RevTable(tbl))
        rseq == SetToSeq(Requests(T))
        res == [i \in 1..Len(rseq) |->
                  LET co == CurlyOutcomes(T, rseq[i])
                      jo == JsrOutcomes(T, rseq[i]) IN
                  [ok |-> Theorems(tbl, T, TR, rseq[i], co, jo), pred |-> PredOf(co), predj |-> PredOf(jo)]]
    IN /\ DominanceStrict(T)
       /\ \A i \in 1..Len(rseq) : res[i].ok
       /\ PrintT("CASE " \o ToJson([services |-> tbl, reqs |-> rseq,
                                     pred |-> [i \in 1..Len(rseq) |-> res[i].pred],
                                     predj |-> [i \in 1..Len(rseq) |-> res[i].predj]]))

\* the model-level statements about computeAllowedMethods, as an invariant of their own (a counter-model must
\* be refuted by THIS invariant)
OptionsInv == phase = 2 => LET T == Prepare(tbl) IN OptionsTruthful(T) /\ OptionsSlash(T)
=============================================================================

--------------------------- MODULE RegistryTrace ---------------------------
(***************************************************************************)
(* Trace validation for C11: registration histories performed on a real    *)
(* Container.  After every operation the harness builds a fresh container  *)
(* from the content it believes the container has; this spec recomputes    *)
(* that content with Layer A (binding), demands that no Add panicked, and  *)
(* that every probe is answered identically by the history-built and the   *)
(* fresh-built container through ServeHTTP and Dispatch; it also compares  *)
(* the real net/http.ServeMux answer class with the specification's mux    *)
(* model (drift of the model, not a verdict on go-restful).                *)
(***************************************************************************)
EXTENDS Registry, Json, IOUtils, TLC

Trace == ndJsonDeserialize(IOEnv.TRACE_FILE)
VARIABLES l, a
Mis(line, clause, d) == PrintT("MISMATCH " \o ToJson([line |-> line, clause |-> clause, out |-> 0, variant |-> d]))
Bump(k) == TLCSet(k, TLCGet(k) + 1)
Chk(line, ok, clause, d) == IF ok THEN TRUE ELSE Mis(line, clause, d)
\* registers: 1 line, 2 probes compared, 3 operations, 4 probes after a Remove happened in the
\* history, 5 Add operations

Apply(c, op) ==
  CASE op[1] = "add"    -> AAdd(c, op[2])
    [] op[1] = "remove" -> ARemove(c, op[2])
    [] op[1] = "handle" -> AHandle(c, op[2], op[2])
    [] OTHER            -> c      \* route / unroute change routes, not the registry content

ContentOf(ev) == [services |-> ev.content.services,
                  handlers |-> [i \in 1..Len(ev.content.handlers) |-> <<ev.content.handlers[i][1], ev.content.handlers[i][2]>>]]

MuxClass(c, u) == MuxLookup(FreshMux(c), u)[1]
CheckOp(line, ev) ==
  /\ Bump(3)
  /\ IF ev.op[1] = "add" THEN Bump(5) ELSE TRUE
  /\ Chk(line, ev.panic = "", "C11.addpanic", <<ev.op, ev.panic>>)
  /\ Chk(line, ev.freshPanic = "", "C11.addpanic", <<"fresh", ev.freshPanic>>)
  /\ Chk(line, ContentOf(ev) = Apply(a, ev.op), "M11.binding", ev.op)
CheckProbe(line, ev) ==
  /\ Bump(2)
  /\ IF ev.afterRemove THEN Bump(4) ELSE TRUE
  /\ Chk(line, ev.h = ev.f, "C11.history", <<ev.entry, ev.path, ev.h, ev.f>>)
  /\ ev.entry = "S" /\ ev.canon => Chk(line, ev.fclass = MuxClass(a, ev.path) \/ ev.fclass = "other", "M11.muxmodel",
                                         <<ev.path, ev.fclass, MuxClass(a, ev.path)>>)

Init == l = 1 /\ a = EmptyContent
Next == /\ l <= Len(Trace) /\ l' = l + 1
        /\ LET ev == Trace[l] IN
           /\ a' = CASE ev.e = "rhist" -> EmptyContent
                     [] ev.e = "rop" /\ ev.panic = "" -> Apply(a, ev.op)
                     [] OTHER -> a
           /\ ev.e = "rop" => CheckOp(l, ev)
           /\ ev.e = "rprobe" => CheckProbe(l, ev)
        /\ TLCSet(1, l)
Spec == Init /\ [][Next]_<<l, a>>
ASSUME \A k \in 1..5 : TLCSet(k, 0)
AllConsumed ==
  /\ PrintT("COUNTERS " \o ToJson([k \in 2..5 |-> TLCGet(k)]))
  /\ IF TLCGet(1) = Len(Trace) THEN PrintT("CONSUMED " \o ToString(Len(Trace)))
     ELSE PrintT("STOPPED-AT " \o ToString(TLCGet(1)))
=============================================================================

------------------------------ MODULE Strings ------------------------------
(***************************************************************************)
(* String operators evaluated by TLC on real path / header / template      *)
(* strings.  TLC supports Len, SubSeq and \o on strings; everything else   *)
(* is built from those.  No regular expressions: character classes only.   *)
(***************************************************************************)
EXTENDS Sequences, Integers, FiniteSets

Ch(s, i) == SubSeq(s, i, i)

RECURSIVE IndexFrom(_, _, _)
\* first position >= i at which the one-character string c occurs in s; 0 if none
IndexFrom(s, c, i) ==
  IF i > Len(s) THEN 0 ELSE IF Ch(s, i) = c THEN i ELSE IndexFrom(s, c, i + 1)
Index(s, c) == IndexFrom(s, c, 1)

RECURSIVE LastIndexFrom(_, _, _)
LastIndexFrom(s, c, i) ==
  IF i < 1 THEN 0 ELSE IF Ch(s, i) = c THEN i ELSE LastIndexFrom(s, c, i - 1)
LastIndex(s, c) == LastIndexFrom(s, c, Len(s))

HasPrefix(s, p) == Len(p) <= Len(s) /\ SubSeq(s, 1, Len(p)) = p
HasSuffix(s, p) == Len(p) <= Len(s) /\ SubSeq(s, Len(s) - Len(p) + 1, Len(s)) = p
StrContains(s, sub) ==
  \/ sub = ""
  \/ \E i \in 1..(Len(s) - Len(sub) + 1) : SubSeq(s, i, i + Len(sub) - 1) = sub
\* position of the first occurrence of sub (non-empty) in s, 0 if none
RECURSIVE IndexStrFrom(_, _, _)
IndexStrFrom(s, sub, i) ==
  IF i + Len(sub) - 1 > Len(s) THEN 0
  ELSE IF SubSeq(s, i, i + Len(sub) - 1) = sub THEN i ELSE IndexStrFrom(s, sub, i + 1)
IndexStr(s, sub) == IndexStrFrom(s, sub, 1)

RECURSIVE SplitOn(_, _)
\* strings.Split(s, c) for a one-character separator: always >= 1 element
SplitOn(s, c) ==
  LET k == Index(s, c) IN
  IF k = 0 THEN <<s>>
  ELSE <<SubSeq(s, 1, k - 1)>> \o SplitOn(SubSeq(s, k + 1, Len(s)), c)

RECURSIVE TrimL(_, _)
TrimL(s, c) == IF Len(s) > 0 /\ Ch(s, 1) = c THEN TrimL(SubSeq(s, 2, Len(s)), c) ELSE s
RECURSIVE TrimR(_, _)
TrimR(s, c) == IF Len(s) > 0 /\ Ch(s, Len(s)) = c THEN TrimR(SubSeq(s, 1, Len(s) - 1), c) ELSE s
Trim(s, c) == TrimR(TrimL(s, c), c)

RECURSIVE JoinFrom(_, _, _)
JoinFrom(seq, sep, i) ==
  IF i > Len(seq) THEN ""
  ELSE IF i = Len(seq) THEN seq[i] ELSE seq[i] \o sep \o JoinFrom(seq, sep, i + 1)
JoinWith(seq, sep) == JoinFrom(seq, sep, 1)

RangeOf(f) == {f[i] : i \in DOMAIN f}

UpperS == "ABCDEFGHIJKLMNOPQRSTUVWXYZ"
LowerS == "abcdefghijklmnopqrstuvwxyz"
DigitS == "0123456789"
Upper == {Ch(UpperS, i) : i \in 1..26}
Lower == {Ch(LowerS, i) : i \in 1..26}
Digit == {Ch(DigitS, i) : i \in 1..10}
Alpha == Upper \cup Lower
LowerOf == [c \in Upper |-> Ch(LowerS, Index(UpperS, c))]
UpperOf == [c \in Lower |-> Ch(UpperS, Index(LowerS, c))]

RECURSIVE ToLower(_)
ToLower(s) ==
  IF s = "" THEN ""
  ELSE LET c == Ch(s, 1) IN
       (IF c \in Upper THEN LowerOf[c] ELSE c) \o ToLower(SubSeq(s, 2, Len(s)))
RECURSIVE ToUpper(_)
ToUpper(s) ==
  IF s = "" THEN ""
  ELSE LET c == Ch(s, 1) IN
       (IF c \in Lower THEN UpperOf[c] ELSE c) \o ToUpper(SubSeq(s, 2, Len(s)))
EqFold(a, b) == Len(a) = Len(b) /\ ToLower(a) = ToLower(b)

AllIn(s, class) == \A i \in 1..Len(s) : Ch(s, i) \in class
SomeIn(s, class) == \E i \in 1..Len(s) : Ch(s, i) \in class

\* decimal "0.8", "1", "0.25", ".5" -> thousandths; -1 if not of that form
DigitVal(c) == Index(DigitS, c) - 1
RECURSIVE DecNat(_, _)
DecNat(s, acc) == IF s = "" THEN acc ELSE DecNat(SubSeq(s, 2, Len(s)), acc * 10 + DigitVal(Ch(s, 1)))
Pad3(f) == SubSeq(f \o "000", 1, 3)
ParseMilli(s) ==
  LET d == Index(s, ".")
      ip == IF d = 0 THEN s ELSE SubSeq(s, 1, d - 1)
      fp == IF d = 0 THEN "" ELSE SubSeq(s, d + 1, Len(s))
  IN IF s = "" \/ s = "." \/ ~AllIn(ip, Digit) \/ ~AllIn(fp, Digit) \/ Len(ip) > 4 THEN -1
     ELSE DecNat(ip, 0) * 1000 + DecNat(Pad3(fp), 0)

SeqToSet(s) == {s[i] : i \in 1..Len(s)}
=============================================================================

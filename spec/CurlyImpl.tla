------------------------------ MODULE CurlyImpl ------------------------------
(***************************************************************************)
(* Layer B: implementation-shaped model of CurlyRouter (curly.go,          *)
(* curly_route.go), the shared detectRoute stage (jsr311.go:69) and        *)
(* defaultPathProcessor.ExtractParameters (path_processor.go), written one *)
(* operator per function of the code, including what the code does on      *)
(* inputs its authors did not think of (index arithmetic -> "panic").      *)
(* It is checked against Layer A by MC_Routing (Refinement) and compared   *)
(* with the real code by the conformance run (model drift).                *)
(*                                                                         *)
(* State of the pinned tree INCLUDING the two repairs made in this work:   *)
(*   SuffixChecked  - matchesRouteByPathTokens requires a {v}suffix token's*)
(*                    suffix (fix 75541ee); FALSE = the legacy behaviour   *)
(*   RootRegexChecked - computeWebserviceScore evaluates a root parameter's*)
(*                    regex; FALSE = legacy                                *)
(* The legacy settings are counter-models TLC must refute (non-vacuity).   *)
(***************************************************************************)
EXTENDS Routing, SequencesExt

CONSTANTS SuffixChecked, RootRegexChecked, RootSuffixChecked

\* ---------- strings the code compares lexicographically ----------
Ascii == " !\"#$%&'()*+,-./0123456789:;<=>?@ABCDEFGHIJKLMNOPQRSTUVWXYZ[\\]^_`abcdefghijklmnopqrstuvwxyz{|}~"
OrdOf(c) == LET k == Index(Ascii, c) IN IF k = 0 THEN 200 ELSE k
RECURSIVE StrLess(_, _)
StrLess(a, b) ==
  IF b = "" THEN FALSE
  ELSE IF a = "" THEN TRUE
  ELSE LET x == OrdOf(Ch(a, 1))   y == OrdOf(Ch(b, 1)) IN
       IF x < y THEN TRUE ELSE IF x > y THEN FALSE
       ELSE StrLess(SubSeq(a, 2, Len(a)), SubSeq(b, 2, Len(b)))

\* ---------- custom_verb.go ----------
HasVerbG(tok) == VerbOf(tok) # ""
IsMatchVerb(routeTok, pathTok) == HasSuffix(pathTok, VerbOf(routeTok))
RemoveVerb(s) == SubSeq(s, 1, Len(s) - Len(VerbOf(s)))

\* ---------- curly.go:146 computeWebserviceScore ----------
RECURSIVE WsScore(_, _, _, _)
WsScore(q, t, i, score) ==
  IF i > Len(t) THEN [ok |-> TRUE, score |-> score]
  ELSE LET each == q[i]   other == t[i] IN
       IF Len(each) = 0 /\ Len(other) = 0 THEN WsScore(q, t, i + 1, score + 1)
       ELSE IF Len(other) > 0 /\ HasPrefix(other, "{")
            THEN IF Len(each) = 0 THEN [ok |-> FALSE, score |-> score]
                 ELSE LET col == Index(other, ":")
                          re  == SubSeq(other, col + 1, Len(other) - 1)
                          cb  == Index(other, "}")
                      IN IF RootRegexChecked /\ col # 0 /\ re # "*" /\ ~ReSearch(re, each)
                         THEN [ok |-> FALSE, score |-> score]
                         \* {v}suffix in a root path: the suffix must be present (third repair; FALSE = before)
                         ELSE IF RootSuffixChecked /\ col = 0 /\ cb # 0 /\ cb < Len(other)
                                 /\ ~HasSuffix(each, SubSeq(other, cb + 1, Len(other)))
                         THEN [ok |-> FALSE, score |-> score]
                         ELSE WsScore(q, t, i + 1, score + 1)
            ELSE IF each # other THEN [ok |-> FALSE, score |-> score]
                 ELSE WsScore(q, t, i + 1, score + (Len(t) - (i - 1)) * 10)
ComputeWsScore(q, t) == IF Len(t) > Len(q) THEN [ok |-> FALSE, score |-> 0] ELSE WsScore(q, t, 1, 0)

\* curly.go:131 detectWebService: strict '>' keeps the first of equal scores; 0 = none
RECURSIVE DetectWs(_, _, _, _, _)
DetectWs(q, T, w, best, score) ==
  IF w > Len(T) THEN best
  ELSE LET s == ComputeWsScore(q, Tokenize(T[w].root)) IN
       IF s.ok /\ s.score > score THEN DetectWs(q, T, w + 1, w, s.score)
       ELSE DetectWs(q, T, w + 1, best, score)

\* ---------- curly.go:60 matchesRouteByPathTokens ----------
NoMatch == [ok |-> FALSE, pc |-> 0, sc |-> 0]
RECURSIVE CurlyWalk(_, _, _, _, _, _)
CurlyWalk(rt, q, hv, i, pc, sc) ==
  IF i > Len(rt) THEN [ok |-> TRUE, pc |-> pc, sc |-> sc]
  ELSE IF i = Len(q) + 1 THEN NoMatch
  ELSE LET verbCase == hv /\ HasVerbG(rt[i]) IN
       IF verbCase /\ ~IsMatchVerb(rt[i], q[i]) THEN NoMatch
       ELSE LET rtok == IF verbCase THEN RemoveVerb(rt[i]) ELSE rt[i]
                qtok == IF verbCase THEN RemoveVerb(q[i]) ELSE q[i]
                sc1  == IF verbCase THEN sc + 1 ELSE sc
            IN IF HasPrefix(rtok, "{")
               THEN LET col == Index(rtok, ":") IN
                    IF col # 0
                    THEN LET re == SubSeq(rtok, col + 1, Len(rtok) - 1) IN
                         IF re = "*" THEN [ok |-> TRUE, pc |-> pc + 1, sc |-> sc1]
                         ELSE IF ReSearch(re, qtok) THEN CurlyWalk(rt, q, hv, i + 1, pc + 1, sc1)
                         ELSE NoMatch
                    ELSE LET cb == Index(rtok, "}") IN
                         IF SuffixChecked /\ cb # 0 /\ cb < Len(rtok)
                            /\ ~HasSuffix(qtok, SubSeq(rtok, cb + 1, Len(rtok)))
                         THEN NoMatch
                         ELSE CurlyWalk(rt, q, hv, i + 1, pc + 1, sc1)
               ELSE IF qtok # rtok THEN NoMatch
                    ELSE CurlyWalk(rt, q, hv, i + 1, pc, sc1 + 1)
MatchesRouteByPathTokens(rt, q, hv) ==
  IF Len(rt) < Len(q) /\ (Len(rt) = 0 \/ ~HasSuffix(rt[Len(rt)], "*}")) THEN NoMatch
  ELSE CurlyWalk(rt, q, hv, 1, 0, 0)

\* ---------- curly_route.go:35 Less (i sorts before j) ----------
CurlyLess(a, b) ==  \* a, b: [sc, pc, path]; TRUE when a must come before b
  IF a.sc # b.sc THEN a.sc > b.sc
  ELSE IF a.pc # b.pc THEN a.pc > b.pc
  ELSE StrLess(b.path, a.path)

\* all orders sort.Sort may produce: permutations in which no later element is Less than an earlier one
SortedOrders(cands) ==  \* cands: set of route indices with key function
  {s \in {p \in [1..Cardinality(DOMAIN cands) -> DOMAIN cands] : \A i, j \in DOMAIN p : i # j => p[i] # p[j]} :
     \A i, j \in DOMAIN s : i < j => ~CurlyLess(cands[s[j]], cands[s[i]])}

\* ---------- jsr311.go:69 detectRoute on an ordered candidate list ----------
DetectRoute(S, order, req) ==
  LET R(r) == S.routes[r]
      c1 == SelectSeq(order, LAMBDA r : R(r).conds \subseteq SeqToSet(req.conds))
      c2 == SelectSeq(c1, LAMBDA r : R(r).m = req.m)
      c3 == SelectSeq(c2, LAMBDA r : CtAdmits(R(r).m, R(r).cons, R(r).noct, req.ct))
      acc == IF req.acc = "" THEN "*/*" ELSE req.acc
      c4 == SelectSeq(c3, LAMBDA r : MatchesAcceptG(R(r).prod, acc))
      E(st, al) == [k |-> "err", st |-> st, allow |-> al, r |-> 0]
  IN IF c1 = <<>> THEN E(404, <<>>)
     ELSE IF c2 = <<>> THEN E(405, SetToSeq({R(c1[i]).m : i \in 1..Len(c1)}))
     ELSE IF c3 = <<>> /\ req.clen > 0 THEN E(415, <<>>)
     ELSE IF c4 = <<>> THEN (IF Bodiless(req) THEN E(415, <<>>) ELSE E(406, <<>>))
     ELSE [k |-> "route", st |-> 200, allow |-> <<>>, r |-> c4[1]]

\* ---------- path_processor.go:22 ExtractParameters ----------
\* returns [panic |-> BOOLEAN, m |-> function name -> value]
RECURSIVE Extract(_, _, _, _, _)
Extract(parts, url, hv, i, acc) ==
  IF i > Len(parts) THEN [panic |-> FALSE, m |-> acc]
  ELSE LET key0 == parts[i]
           val0 == IF i > Len(url) THEN "" ELSE url[i]
           vc   == hv /\ HasVerbG(key0)
           key  == IF vc THEN RemoveVerb(key0) ELSE key0
           val  == IF vc THEN RemoveVerb(val0) ELSE val0
           ob   == Index(key, "{")
       IN IF ob = 0 THEN Extract(parts, url, hv, i + 1, acc)
          ELSE LET col == Index(key, ":") IN
               IF col # 0
               THEN LET re == SubSeq(key, col + 1, Len(key) - 1)
                        nm == SubSeq(key, 2, col - 1)
                    IN IF re = "*"
                       THEN [panic |-> FALSE, m |-> [n \in DOMAIN acc \cup {nm} |-> IF n = nm THEN TailJoin(url, i) ELSE acc[n]]]
                       ELSE Extract(parts, url, hv, i + 1, [n \in DOMAIN acc \cup {nm} |-> IF n = nm THEN val ELSE acc[n]])
               ELSE LET cb == Index(key, "}")
                        sufLen == Len(key) - cb
                        hi == Len(val) - sufLen        \* Go: value[startIndex:endValueIndex], 0-based lo = ob-1
                        nm == SubSeq(key, ob + 1, cb - 1)
                    IN IF hi < ob - 1 THEN [panic |-> TRUE, m |-> acc]
                       ELSE Extract(parts, url, hv, i + 1,
                                    [n \in DOMAIN acc \cup {nm} |-> IF n = nm THEN SubSeq(val, ob, hi) ELSE acc[n]])

EmptyMap == [n \in {} |-> ""]
MapToPairs(m) == SetToSeq({<<n, m[n]>> : n \in DOMAIN m})

\* ---------- CurlyRouter.SelectRoute + Container.dispatch ----------
Unsupported(T) ==
  \E w \in 1..Len(T) : \/ \E i \in 1..Len(T[w].rt) : T[w].rt[i].kind = "re" /\ ~ReSupported(T[w].rt[i].re)
                       \/ \E r \in 1..Len(T[w].routes) : \E i \in 1..Len(T[w].routes[r].pt) :
                             T[w].routes[r].pt[i].kind = "re" /\ ~ReSupported(T[w].routes[r].pt[i].re)

CurlyOutcomes(T, req) ==
  LET q == Tokenize(req.path)
      w == DetectWs(q, T, 1, 0, -1)
      Err(st, al) == [k |-> "err", ws |-> 0, rt |-> 0, params |-> <<>>, st |-> st, allow |-> al,
                      ran |-> 0, selp |-> "", selm |-> ""]
  IN IF Unsupported(T) THEN {}
     ELSE IF w = 0 THEN {Err(404, <<>>)}
     ELSE LET S == T[w]
              mr == [r \in 1..Len(S.routes) |->
                       MatchesRouteByPathTokens(Tokenize(S.routes[r].full), q, HasVerbG(S.routes[r].full))]
              cands == [r \in {x \in 1..Len(S.routes) : mr[x].ok} |->
                          [sc |-> mr[r].sc, pc |-> mr[r].pc, path |-> S.routes[r].full]]
          IN IF DOMAIN cands = {} THEN {Err(404, <<>>)}
             ELSE {LET d == DetectRoute(S, order, req) IN
                   IF d.k = "err" THEN Err(d.st, d.allow)
                   ELSE LET R == S.routes[d.r]
                            ex == Extract(Tokenize(R.full), q, HasVerbG(R.full), 1, EmptyMap)
                        IN IF ex.panic
                           THEN [k |-> "panic", ws |-> 0, rt |-> 0, params |-> <<>>, st |-> 0, allow |-> <<>>,
                                 ran |-> 0, selp |-> "", selm |-> ""]
                           ELSE [k |-> "route", ws |-> w, rt |-> d.r, params |-> MapToPairs(ex.m), st |-> 200,
                                 allow |-> <<>>, ran |-> 1, selp |-> R.full, selm |-> R.m]
                   : order \in SortedOrders(cands)}
=============================================================================

--------------------------- MODULE DispatchTrace ---------------------------
(***************************************************************************)
(* Trace validation for C06 / C07 / C10: one logical trace per request of  *)
(* the real Container (events from generated filters, handlers, recover    *)
(* handler and the instrumenting compressor provider) judged by the        *)
(* monitor Dispatch!Step, plus the pure C07 / C10 clauses on the response. *)
(***************************************************************************)
EXTENDS Dispatch, Json, IOUtils, TLC

Trace == ndJsonDeserialize(IOEnv.TRACE_FILE)
VARIABLES l, mon, prevWhy
Mis(line, clause, d) == PrintT("MISMATCH " \o ToJson([line |-> line, clause |-> clause, out |-> 0, variant |-> d]))
Bump(k) == TLCSet(k, TLCGet(k) + 1)
Chk(line, ok, clause, d) == IF ok THEN TRUE ELSE Mis(line, clause, d)
\* registers: 1 line, 2 requests judged, 3 requests with >= 2 filters or a short-circuit (C06),
\* 4 responses with a coding applied (C07), 5 panicking requests (C10), 6 recovered panics,
\* 7 events fed to the monitor, 8 requests whose writer carried a Content-Encoding on arrival

CheckEnd(line, ev) ==
  LET m2 == Step(mon, Ev("end", ev.esc, 0, 0, {}))
      o  == ev.obs
  IN /\ Bump(2)
     /\ Chk(line, m2.ok, m2.why, <<>>)
     \* the request after a panicking one must be served as it would have been otherwise
     \* (judged against the verdict the same request got before: a request that is itself refused for
     \* a recorded reason is refused for that reason again)
     /\ Chk(line, ev.prevPanicked => (m2.ok \/ m2.why = prevWhy), "C10.usable", <<"follow-up request", m2.why>>)
     /\ IF mon.n >= 2 \/ (mon.n >= 1 /\ mon.passed # 1..mon.n) THEN Bump(3) ELSE TRUE
     /\ IF mon.panicked THEN Bump(5) ELSE TRUE
     /\ IF mon.recovered > 0 THEN Bump(6) ELSE TRUE
     /\ Chk(line, ev.esc = 1 => ev.escEq, "C10.value", <<>>)
     /\ Chk(line, ev.probesEq, "C10.usable", <<"probes">>)
     /\ Chk(line, ev.addDone, "C10.usable", <<"add">>)
     /\ o.entry # "conc" =>
        /\ IF Applied(o) THEN Bump(4) ELSE TRUE
        /\ IF o.preCE # "" THEN Bump(8) ELSE TRUE
        /\ Chk(line, C07Once(o), "C07.once", <<o.acq, o.rel>>)
        /\ Chk(line, C07Label(o), "C07.label", <<o.ce>>)
        /\ Chk(line, C07Mention(o), "C07.mention", <<o.ae, o.ce>>)
        /\ Chk(line, C07Enabled(o), "C07.enabled", <<o.entry, o.rEnc>>)
        /\ Chk(line, C07Pre(o), "C07.pre", <<o.preCE, o.ce>>)
        /\ Chk(line, C07None(o), "C07.none", <<o.ce>>)
        /\ Chk(line, C07Payload(o), "C07.payload", <<o.decodeOK, o.decodedEq, o.bodyEq, o.len>>)
        \* nothing written before the panic: the client sees the recover handler's status
        /\ Chk(line, (mon.panicked /\ mon.recovered = 1 /\ ~o.wroteBefore)
                        => o.status = (IF o.recStatus > 0 THEN o.recStatus ELSE 500),
               "C10.status", <<o.status>>)
        \* ... and a complete, decodable body: what the recover handler wrote arrives intact
        /\ Chk(line, mon.recovered = 1 => C07Payload(o), "C10.body", <<o.decodeOK, o.decodedEq, o.bodyEq>>)

Init == l = 1 /\ mon = MonInit(0, FALSE, 1, 1) /\ prevWhy = ""
Next == /\ l <= Len(Trace) /\ l' = l + 1
        /\ LET ev == Trace[l] IN
           /\ mon' = CASE ev.e = "dreq" -> MonInit(ev.n, ev.rec, 1, 1)
                       [] ev.e = "dev"  -> Step(mon, EvW(ev.k, ev.f, ev.rq, ev.rs, SeqToSet(ev.at), ev.who))
                       [] OTHER         -> mon
           /\ prevWhy' = IF ev.e = "dend" THEN Step(mon, Ev("end", ev.esc, 0, 0, {})).why ELSE prevWhy
           /\ ev.e = "dev" => Bump(7)
           /\ ev.e = "dend" => CheckEnd(l, ev)
        /\ TLCSet(1, l)
Spec == Init /\ [][Next]_<<l, mon, prevWhy>>
ASSUME \A k \in 1..8 : TLCSet(k, 0)
AllConsumed ==
  /\ PrintT("COUNTERS " \o ToJson([k \in 2..8 |-> TLCGet(k)]))
  /\ IF TLCGet(1) = Len(Trace) THEN PrintT("CONSUMED " \o ToString(Len(Trace)))
     ELSE PrintT("STOPPED-AT " \o ToString(TLCGet(1)))
=============================================================================

---------------------------- MODULE BuilderTrace ----------------------------
(***************************************************************************)
(* Trace validation of the declaration history (Builder).  The harness     *)
(* performs API calls on a real WebService and real RouteBuilders and logs *)
(* after every call what WebService.Routes() shows; this spec takes the    *)
(* same step in Builder and judges the log:                                *)
(*   - a newly registered route is one Layer A allows (RouteAllowed);      *)
(*   - routes registered earlier have not changed;                         *)
(* then the WebService is added to a container and probed with requests:   *)
(* each answer is judged by Layer A of Routing against the LOGGED          *)
(* declarations, the route filters that ran are the builder's at the time  *)
(* of registration, and the entity's media type is one the route produces. *)
(* A total monitor: a mismatch is printed and the trace is consumed on.    *)
(***************************************************************************)
EXTENDS Builder, Json, IOUtils, TLC

R == INSTANCE Routing

Trace == ndJsonDeserialize(IOEnv.TRACE_FILE)
VARIABLES l, S, L
vars == <<l, S, L>>

Mis(line, clause, d) == PrintT("MISMATCH " \o ToJson([line |-> line, clause |-> clause, out |-> 0, variant |-> d]))
Bump(k) == TLCSet(k, TLCGet(k) + 1)
Chk(line, ok, clause, d) == IF ok THEN TRUE ELSE Mis(line, clause, d)
\* registers: 1 line, 2 API calls, 3 registrations that inherit a WebService default, 4 probes judged,
\* 5 histories, 6 probes that ran a route with filters
Bids == 1..3

OpOf(ev) == [op |-> ev.op, b |-> ev.b, m |-> ev.m, v |-> ev.v]

CheckOp(line, ev) ==
  LET o == OpOf(ev)
      S2 == Step(S, o, FALSE)
      n == Len(S.routes)
  IN /\ Bump(2)
     /\ Chk(line, Enabled(S, o), "X.harness", <<ev.op>>)
     /\ Chk(line, Len(ev.routes) = Len(S2.routes), "C01.decl", <<"count", Len(ev.routes), Len(S2.routes)>>)
     \* RemoveRoute takes exactly that route away
     /\ (o.op = "rm" /\ Len(L) = n) =>
          Chk(line, ev.routes = [i \in 1..(n - 1) |-> IF i < o.b THEN L[i] ELSE L[i + 1]], "C01.decl", <<"removed", o.b, ev.routes>>)
     \* registered routes never change otherwise
     /\ o.op # "rm" => \A i \in 1..n : i <= Len(ev.routes) /\ i <= Len(L) =>
          /\ Chk(line, ev.routes[i].prod = L[i].prod, "C05.decl", <<"changed", i, ev.routes[i].prod, L[i].prod>>)
          /\ Chk(line, ev.routes[i].m = L[i].m /\ ev.routes[i].path = L[i].path /\ ev.routes[i].cons = L[i].cons,
                 "C01.decl", <<"changed", i, ev.routes[i], L[i]>>)
     \* the new route is one Layer A allows
     /\ (o.op = "route" /\ Len(ev.routes) = n + 1) =>
          LET lr == ev.routes[n + 1]   B == S.bs[o.b] IN
          /\ IF B.ownP = <<>> \/ B.ownC = <<>> THEN Bump(3) ELSE TRUE
          /\ Chk(line, lr.m = B.m /\ lr.path = R!FullTemplate(B.root, B.p), "C01.decl", <<"method/path", lr.m, lr.path>>)
          /\ Chk(line, lr.cons \in AllowedC(S, o.b), "C01.decl", <<"consumes", lr.cons, S.wcons, B.ownC>>)
          /\ Chk(line, lr.prod \in AllowedP(S, o.b), "C05.decl", <<"produces", lr.prod, S.wprod, B.ownP>>)

\* the table the routers were given, as logged
Table == R!Prepare(<<[root |-> "/",
                      routes |-> [i \in 1..Len(L) |-> [m |-> L[i].m, p |-> L[i].path, cons |-> L[i].cons,
                                                         prod |-> L[i].prod, conds |-> <<>>, noct |-> <<>>]]]>>)

CheckProbe(line, ev) ==
  LET o == ev.out IN
  /\ Bump(4)
  /\ IF R!Legal(ev.router, Table, ev.req, o) THEN TRUE
     ELSE Mis(line, R!Diagnose(ev.router, Table, ev.req, o), <<ev.router, ev.req.m, ev.req.path, ev.req.ct, ev.req.acc>>)
  /\ Chk(line, R!OnceOK(o), "C02.once", <<o.ran>>)
  /\ (o.k = "route" /\ o.rt \in 1..Len(S.routes)) =>
       /\ IF S.routes[o.rt].fl # <<>> \/ S.wfl # <<>> THEN Bump(6) ELSE TRUE
       /\ Chk(line, ev.fl = S.routes[o.rt].fl, "C06.decl", <<"route", ev.fl, S.routes[o.rt].fl>>)
       /\ Chk(line, ev.wfl = S.wfl, "C06.decl", <<"service", ev.wfl, S.wfl>>)
       /\ (ev.wct # "" /\ o.rt <= Len(L) /\ L[o.rt].prod # <<>>) =>
            LET prod == L[o.rt].prod   ps == {prod[i] : i \in 1..Len(prod)} IN
            /\ Chk(line, ev.wct \in ps, "C05.member", <<ev.wct, prod>>)
            /\ Chk(line, ev.req.acc \in ps => ev.wct = ev.req.acc, "C05.best", <<ev.wct, ev.req.acc>>)

Init == l = 1 /\ S = InitState(Bids) /\ L = <<>>
Next ==
  /\ l <= Len(Trace)
  /\ l' = l + 1
  /\ LET ev == Trace[l] IN
     /\ S' = IF ev.e = "bcase" THEN InitState(Bids) ELSE IF ev.e = "bop" THEN Step(S, OpOf(ev), FALSE) ELSE S
     /\ L' = IF ev.e = "bcase" THEN <<>> ELSE IF ev.e = "bop" THEN ev.routes ELSE L
     /\ ev.e = "bcase" => Bump(5)
     /\ ev.e = "bop" => CheckOp(l, ev)
     /\ ev.e = "bprobe" => CheckProbe(l, ev)
     /\ TLCSet(1, l)
Spec == Init /\ [][Next]_vars
ASSUME \A k \in 1..6 : TLCSet(k, 0)
AllConsumed ==
  /\ PrintT("COUNTERS " \o ToJson([k \in 2..6 |-> TLCGet(k)]))
  /\ IF TLCGet(1) = Len(Trace) THEN PrintT("CONSUMED " \o ToString(Len(Trace)))
     ELSE PrintT("STOPPED-AT " \o ToString(TLCGet(1)))
=============================================================================

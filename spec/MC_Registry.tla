---------------------------- MODULE MC_Registry ----------------------------
(***************************************************************************)
(* Exhaustive exploration of registration histories (C11): every sequence  *)
(* of at most MaxOps operations over Add / Remove / Handle on a pool of    *)
(* root paths that share prefixes, differ by a trailing slash or by a      *)
(* variable, with and without a service on "/".  After every operation the *)
(* implementation-shaped state (Layer B) must answer every probe URL at    *)
(* mux level exactly as a freshly built container with the same content    *)
(* (Layer A), and Add must never panic.  Complete histories are exported   *)
(* and replayed on real containers.                                        *)
(***************************************************************************)
EXTENDS Registry, Json, TLC

CONSTANTS Tier, MaxOps

Roots == IF Tier = "quick" THEN <<"/", "/a", "/a/b", "/a/{x}/c", "/a/{x}/d", "/ab">>
         ELSE <<"/", "/a", "/a/", "/a/b", "/ab", "/a/{x}", "/a/{x}/c", "/a/{x}/d", "/{x}">>
HPats == <<"/h/", "/plain">>
Probes == {"/", "/a", "/a/", "/a/b", "/a/b/z", "/a/q/c", "/a/q/d", "/ab", "/ab/z", "/q", "/h/x", "/plain", "/a/q"}

VARIABLES b, a, hist
vars == <<b, a, hist>>
Init == b = EmptyB /\ a = EmptyContent /\ hist = <<>>

Present == SeqToSet(a.services)
HandledPats == {a.handlers[i][1] : i \in 1..Len(a.handlers)}

DoAdd(r) == /\ r \notin Present
            /\ b' = BAdd(b, r) /\ a' = AAdd(a, r) /\ hist' = Append(hist, <<"add", r>>)
DoRemove(r) == /\ r \in Present
               /\ b' = BRemove(b, r)
               /\ a' = IF HandlersSurviveRemove THEN ARemove(a, r) ELSE ARemove(a, r)
               /\ hist' = Append(hist, <<"remove", r>>)
DoHandle(p) == /\ p \notin HandledPats
               /\ b' = BHandle(b, p, p) /\ a' = AHandle(a, p, p) /\ hist' = Append(hist, <<"handle", p>>)
Next == /\ Len(hist) < MaxOps /\ ~b.panicked
        /\ \/ \E i \in 1..Len(Roots) : DoAdd(Roots[i]) \/ DoRemove(Roots[i])
           \/ \E i \in 1..Len(HPats) : DoHandle(HPats[i])
Spec == Init /\ [][Next]_vars

AddNeverPanics == ~b.panicked
ServicesEqual == ~b.panicked => b.ws = a.services
HistoryIndependent ==
  ~b.panicked => \A u \in Probes : MuxLookup(b.mux, u) = MuxLookup(FreshMux(a), u)
Export == (Len(hist) = MaxOps \/ b.panicked) => PrintT("CASE " \o ToJson([ops |-> hist]))
=============================================================================

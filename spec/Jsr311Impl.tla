----------------------------- MODULE Jsr311Impl -----------------------------
\* Layer B: implementation-shaped model of RouterJSR311 (jsr311.go) on the template fragment
\* it documents (literals, {v}, {v:regex} from the slash-free catalogue, tail {v:STAR}).
\* The router compiles every template to a regular expression (path_expression.go:37) and
\* matches the URL path as a STRING in two steps (WebService root, then the route's relative
\* path on the remainder).  On this fragment a match of   ^/t1/t2/.../tn FINAL $   where FINAL
\* is the optional group "slash, anything" is segment aligned: every token is followed by "/"
\* or the end, a plain variable (one or more non-slash characters, lazy) needs a non-empty
\* segment, a regex variable must match its whole segment, a tail (anything, greedy) takes the
\* rest including slashes.  Nothing is trimmed: repeated or trailing slashes stay in the
\* remainder / in a tail value.  Ranking (detectDispatcher, selectRoutes) and the shared
\* detectRoute stage follow the code.
EXTENDS CurlyImpl

\* tokens of a template as templateToRegularExpression sees them (empty tokens skipped)
RxTokens(template) == SelectSeq(Tokenize(template), LAMBDA t : t # "")

\* first segment of a string that starts with "/": text up to the next "/" (or the end)
SegOf(s) == LET k == IndexFrom(s, "/", 2) IN IF k = 0 THEN SubSeq(s, 2, Len(s)) ELSE SubSeq(s, 2, k - 1)
AfterSeg(s) == LET k == IndexFrom(s, "/", 2) IN IF k = 0 THEN "" ELSE SubSeq(s, k, Len(s))

\* match the compiled expression of toks against the string p: [ok, groups (values of the variables), final]
RECURSIVE RxMatch(_, _, _, _)
RxMatch(toks, i, p, groups) ==
  IF i > Len(toks) THEN [ok |-> TRUE, groups |-> groups, final |-> p]
  ELSE IF ~HasPrefix(p, "/") THEN [ok |-> FALSE, groups |-> <<>>, final |-> ""]
  ELSE LET t == ParseTok(toks[i])   seg == SegOf(p) IN
       CASE t.kind = "tail" ->
              \* greedy: everything after the slash; the tokens after a tail are not modelled
              [ok |-> i = Len(toks), groups |-> Append(groups, SubSeq(p, 2, Len(p))), final |-> ""]
         [] t.kind = "lit" ->
              IF seg = toks[i] THEN RxMatch(toks, i + 1, AfterSeg(p), groups)
              ELSE [ok |-> FALSE, groups |-> <<>>, final |-> ""]
         [] t.kind = "var" ->
              IF seg # "" THEN RxMatch(toks, i + 1, AfterSeg(p), Append(groups, seg))
              ELSE [ok |-> FALSE, groups |-> <<>>, final |-> ""]
         [] t.kind = "re" ->
              IF ReFull(t.re, seg) THEN RxMatch(toks, i + 1, AfterSeg(p), Append(groups, seg))
              ELSE [ok |-> FALSE, groups |-> <<>>, final |-> ""]
Rx(template, p) == RxMatch(RxTokens(template), 1, p, <<>>)

LitCount(template) ==
  LET ts == RxTokens(template)
      lens == [i \in 1..Len(ts) |-> IF StrContains(ts[i], "{") THEN 0 ELSE Len(ts[i])]
  IN IF Len(ts) = 0 THEN 0 ELSE FoldLeft(LAMBDA a, b : a + b, 0, lens)
VarCountOf(template) == Cardinality({i \in 1..Len(RxTokens(template)) : HasPrefix(RxTokens(template)[i], "{")})
\* capturing groups of the compiled expression: one per variable plus the groups inside its own regex
RECURSIVE CountCh(_, _)
CountCh(s, c) == IF s = "" THEN 0 ELSE (IF Ch(s, 1) = c THEN 1 ELSE 0) + CountCh(SubSeq(s, 2, Len(s)), c)
GroupCountOf(template) ==
  LET ts == RxTokens(template)
      gs == [i \in 1..Len(ts) |-> IF HasPrefix(ts[i], "{") THEN 1 + CountCh(ParseTok(ts[i]).re, "(") ELSE 0]
  IN IF Len(ts) = 0 THEN 0 ELSE FoldLeft(LAMBDA a, b : a + b, 0, gs)
VarNamesOf(template) ==
  LET ts == RxTokens(template) IN
  SelectSeq([i \in 1..Len(ts) |-> IF HasPrefix(ts[i], "{") THEN ParseTok(ts[i]).name ELSE ""], LAMBDA n : n # "")

\* jsr311.go:219 detectDispatcher: descending by (matchesCount, literalCount, nonDefaultCount)
DispLess(a, b) ==   \* a sorts before b
  IF a.mc # b.mc THEN a.mc > b.mc ELSE IF a.lc # b.lc THEN a.lc > b.lc ELSE a.vc > b.vc
DispEq(a, b) == a.mc = b.mc /\ a.lc = b.lc /\ a.vc = b.vc
\* jsr311.go:181 selectRoutes: descending by (literalCount, matchesCount, nonDefaultCount, Path)
CandLess(a, b) ==
  IF a.lc # b.lc THEN a.lc > b.lc ELSE IF a.mc # b.mc THEN a.mc > b.mc
  ELSE IF a.vc # b.vc THEN a.vc > b.vc ELSE StrLess(b.path, a.path)

PermsOf(S) == {p \in [1..Cardinality(S) -> S] : \A i, j \in DOMAIN p : i # j => p[i] # p[j]}

JsrUnsupported(T) ==
  \/ Unsupported(T)
  \/ \E w \in 1..Len(T) :
       \/ \E i \in 1..Len(T[w].rt) : T[w].rt[i].verb # "" \/ T[w].rt[i].pre # "" \/ T[w].rt[i].suf # "" \/ T[w].rt[i].kind = "tail"
       \/ \E r \in 1..Len(T[w].routes) : \E i \in 1..Len(T[w].routes[r].pt) :
            LET t == T[w].routes[r].pt[i] IN
            t.verb # "" \/ t.pre # "" \/ t.suf # "" \/ (t.kind = "tail" /\ i # Len(T[w].routes[r].pt))

\* ---------- container.go computeAllowedMethods (OPTIONS filter, CORS preflight) ----------
\* Since the second repair (OptionsViaRouter = TRUE) the configured router is asked, method by method, whether it
\* answers 404 / 405 for the URL (AllowedMethodsRouter in MC_Routing, which has the request constructor).
\* Before (OptionsViaRouter = FALSE, kept as counter-model): a regular-expression walk over the WebServices and
\* their routes, a second matcher next to the router; after the first repair only over the WebService the router
\* selects for the URL (OptionsSelectedOnly = TRUE), originally over all of them (FALSE).
CONSTANTS OptionsSelectedOnly, OptionsViaRouter
AllowedMethodsImpl(T, url, selected) ==
  LET svcs == IF OptionsSelectedOnly /\ selected # 0 THEN {selected} ELSE 1..Len(T) IN
  UNION {{T[w].routes[r].m : r \in {x \in 1..Len(T[w].routes) :
                                  LET wm == Rx(T[w].root, url) IN
                                  wm.ok /\ LET rm == Rx(T[w].routes[x].p, wm.final) IN rm.ok /\ rm.final \in {"", "/"}}} :
         w \in svcs}
\* the WebService CurlyRouter.SelectRoute returns for the URL (also on a route-level error), 0 if none
CurlySelected(T, url) == DetectWs(Tokenize(url), T, 1, 0, -1)

JsrOutcomes(T, req) ==
  LET Err(st, al) == [k |-> "err", ws |-> 0, rt |-> 0, params |-> <<>>, st |-> st, allow |-> al,
                      ran |-> 0, selp |-> "", selm |-> ""]
      wm == [w \in 1..Len(T) |-> Rx(T[w].root, req.path)]
      disp == [w \in {x \in 1..Len(T) : wm[x].ok} |->
                 [mc |-> GroupCountOf(T[w].root) + 2, lc |-> LitCount(T[w].root), vc |-> VarCountOf(T[w].root)]]
  IN IF JsrUnsupported(T) THEN {}
     ELSE IF DOMAIN disp = {} THEN {Err(404, <<>>)}
     ELSE UNION {
       LET S == T[w]
           rm == [r \in 1..Len(S.routes) |-> Rx(S.routes[r].p, wm[w].final)]
           cset == {r \in 1..Len(S.routes) : rm[r].ok /\ rm[r].final \in {"", "/"}}
           cands == [r \in cset |-> [lc |-> LitCount(S.routes[r].p), mc |-> GroupCountOf(S.routes[r].p) + 1,
                                     vc |-> VarCountOf(S.routes[r].p), path |-> S.routes[r].full]]
       IN IF cset = {} THEN {Err(404, <<>>)}
          ELSE {LET d == DetectRoute(S, order, req) IN
                IF d.k = "err" THEN Err(d.st, d.allow)
                ELSE LET R == S.routes[d.r]
                         wn == VarNamesOf(S.root)   rn == VarNamesOf(R.p)
                         pairs == {<<wn[i], wm[w].groups[i]>> : i \in 1..Len(wn)} \cup {<<rn[i], rm[d.r].groups[i]>> : i \in 1..Len(rn)}
                         \* route parameters overwrite service parameters of the same name
                         names == {p[1] : p \in pairs}
                         val(n) == IF \E i \in 1..Len(rn) : rn[i] = n
                                   THEN rm[d.r].groups[CHOOSE i \in 1..Len(rn) : rn[i] = n]
                                   ELSE wm[w].groups[CHOOSE i \in 1..Len(wn) : wn[i] = n]
                     IN [k |-> "route", ws |-> w, rt |-> d.r, params |-> SetToSeq({<<n, val(n)>> : n \in names}),
                         st |-> 200, allow |-> <<>>, ran |-> 1, selp |-> R.full, selm |-> R.m]
                : order \in {o \in PermsOf(cset) : \A i, j \in DOMAIN o : i < j => ~CandLess(cands[o[j]], cands[o[i]])}}
       : w \in {x \in DOMAIN disp : \A y \in DOMAIN disp : ~DispLess(disp[y], disp[x])}}
=============================================================================

--------------------------- MODULE MC_NegoHistory ---------------------------
(***************************************************************************)
(* C05, history part: one route serves a sequence of requests with         *)
(* different Accept headers.  The entity writer negotiates against the     *)
(* route's Produces list; that list belongs to the Route (route.go hands   *)
(* the very slice to every Response) and must be left as it is: what an    *)
(* earlier request preferred has no influence on a later one.              *)
(* State: cur = the Produces slice as the route holds it now, declared =   *)
(* what was declared.  Each step answers one request with the              *)
(* implementation-shaped EntityWriter (Negotiation!ImplChoice) on cur.     *)
(* HistoryFree: every answer is one Layer A allows for the DECLARED list.  *)
(* Counter-model ReordersInPlace: the writer moves the representation it   *)
(* chose to the front of the shared slice (an in-place sort does that).    *)
(***************************************************************************)
EXTENDS Negotiation, TLC

CONSTANTS MaxReq, ReordersInPlace

J == "application/json"
X == "application/xml"
Reg == {J, X}
Declared == {<<J, X>>, <<X, J>>, <<J>>}
Headers == {"", "*/*", J, X, J \o ";q=0.5," \o X, X \o ";q=0.2," \o J, "text/html,*/*;q=0.1", J \o "," \o X}

VARIABLES declared, cur, n, lastHdr, lastChoice
vars == <<declared, cur, n, lastHdr, lastChoice>>

Init == /\ declared \in Declared /\ cur = declared /\ n = 0 /\ lastHdr = "" /\ lastChoice = {}

ToFront(seq, e) == <<e>> \o SelectSeq(seq, LAMBDA x : x # e)

Serve(hdr) ==
  /\ n < MaxReq /\ n' = n + 1
  /\ MatchesAcceptG(cur, IF hdr = "" THEN "*/*" ELSE hdr)          \* the router admits the request
  /\ LET ch == ImplChoice(cur, Reg, hdr, "") IN
     /\ lastChoice' = ch
     /\ cur' = IF ReordersInPlace /\ ch # {} THEN ToFront(cur, CHOOSE e \in ch : TRUE) ELSE cur
  /\ lastHdr' = hdr /\ UNCHANGED declared
Next == \E h \in Headers : Serve(h)
Spec == Init /\ [][Next]_vars

HistoryFree == n > 0 /\ BestSet(declared, Reg, lastHdr) # {} => lastChoice \subseteq BestSet(declared, Reg, lastHdr)
ProducesUntouched == [][cur' = cur]_vars
=============================================================================

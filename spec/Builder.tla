------------------------------ MODULE Builder ------------------------------
(***************************************************************************)
(* Declaration history: how the calls an application makes on a            *)
(* WebService and its RouteBuilders become the routes the routers see      *)
(* (web_service.go: Path / Produces / Consumes / Method / Route;           *)
(* route_builder.go: Path / Produces / Consumes / Filter / copyDefaults /  *)
(* Build).  The "declaration" C01, C05 and C06 speak about is the outcome  *)
(* of this little state machine, so it is specified and bound to the code  *)
(* like the rest.                                                          *)
(*                                                                         *)
(* Layer A (what is allowed).  When a builder is registered with Route():  *)
(*   - method, sub path and filters are the builder's at that moment; the  *)
(*     root path is the WebService's when the builder was made;            *)
(*   - Produces / Consumes are the builder's own when it has any,          *)
(*     otherwise a default of the WebService: the current one, or one that *)
(*     an earlier registration of the same builder inherited (the property *)
(*     texts do not say whether a builder remembers: both are accepted);   *)
(*   - registered routes never change afterwards (RoutesImmutable).        *)
(* Layer B (what route_builder.go does): copyDefaults WRITES the inherited *)
(* default into the builder (it is sticky), an empty default inherits      *)
(* nothing.  B's choice must always be one A allows (Refines).             *)
(* Counter-models: LazyDefaults (a route without Produces of its own looks *)
(* the default up when it is used: RoutesImmutable fails), DefaultsAppend  *)
(* (copyDefaults appends the default to the route's own list:              *)
(* OwnDeclarationWins fails).                                              *)
(***************************************************************************)
EXTENDS Integers, Sequences, FiniteSets

J == "application/json"
X == "application/xml"

NoBuilder == [live |-> FALSE, root |-> "", m |-> "", p |-> "",
              ownP |-> <<>>, implP |-> <<>>, seenP |-> {}, ownC |-> <<>>, implC |-> <<>>, seenC |-> {},
              fl |-> <<>>]

\* state: [wroot, wprod, wcons, wfl, bs, routes, made, nf, ok, added]
\*   wfl: the filters of the WebService (they apply to ALL its routes, whenever they were added)
\*   added: the WebService has been added to a container (routes registered or removed afterwards must be served
\*   exactly like those that were there before: web_service.go Route / RemoveRoute on a live WebService);
\*   made: number of sub paths handed out; nf: number of filter ids handed out;
\*   ok: every registration so far took a value Layer A allows
InitState(Bids) ==
  [wroot |-> "", wprod |-> <<>>, wcons |-> <<>>, wfl |-> <<>>, bs |-> [b \in Bids |-> NoBuilder],
   routes |-> <<>>, made |-> 0, nf |-> 0, ok |-> TRUE, added |-> FALSE]

\* ---------- Layer A ----------
AllowedP(S, b) == IF S.bs[b].ownP # <<>> THEN {S.bs[b].ownP} ELSE {S.wprod} \cup S.bs[b].seenP
AllowedC(S, b) == IF S.bs[b].ownC # <<>> THEN {S.bs[b].ownC} ELSE {S.wcons} \cup S.bs[b].seenC
\* is r (a [m, p, root, prod, cons, fl] record) a route that registering builder b may produce
RouteAllowed(S, b, r) ==
  LET B == S.bs[b] IN
  /\ r.m = B.m /\ r.p = B.p /\ r.root = B.root /\ r.fl = B.fl
  /\ r.prod \in AllowedP(S, b) /\ r.cons \in AllowedC(S, b)

\* ---------- Layer B: what the code does ----------
EffP(S, b, append) ==
  LET B == S.bs[b] IN
  IF append THEN B.implP \o S.wprod ELSE IF B.implP # <<>> THEN B.implP ELSE S.wprod
EffC(S, b) == LET B == S.bs[b] IN IF B.implC # <<>> THEN B.implC ELSE S.wcons

\* (the sub paths "" and "/" both name the root resource of the WebService)
NormP(p) == IF p = "" THEN "/" ELSE p
CanRegister(S, b) ==
  /\ S.bs[b].live
  /\ ~\E i \in 1..Len(S.routes) : S.routes[i].m = S.bs[b].m /\ NormP(S.routes[i].p) = NormP(S.bs[b].p)

\* ops are records [op, b, m, v]; Enabled says which the generators may issue
Enabled(S, o) ==
  CASE o.op = "wsPath"     -> S.made = 0 /\ S.wroot = "" /\ ~S.added
    [] o.op = "cadd"       -> ~S.added
    [] o.op = "rm"         -> o.b \in 1..Len(S.routes)
    [] o.op = "wsProduces" -> TRUE
    [] o.op = "wsConsumes" -> TRUE
    [] o.op = "wsFilter"   -> TRUE
    [] o.op = "new"        -> TRUE
    [] o.op = "bPath"      -> S.bs[o.b].live
    [] o.op = "bProduces"  -> S.bs[o.b].live
    [] o.op = "bConsumes"  -> S.bs[o.b].live
    [] o.op = "bFilter"    -> S.bs[o.b].live
    [] o.op = "route"      -> CanRegister(S, o.b)
    [] OTHER -> FALSE

PathNo(k) == "/p" \o (CASE k = 1 -> "1" [] k = 2 -> "2" [] k = 3 -> "3" [] k = 4 -> "4" [] k = 5 -> "5"
                        [] k = 6 -> "6" [] k = 7 -> "7" [] k = 8 -> "8" [] k = 9 -> "9" [] OTHER -> "x")

\* the successor under Layer B; `append` is the DefaultsAppend counter-model
Step(S, o, append) ==
  CASE o.op = "wsPath"     -> [S EXCEPT !.wroot = o.v[1]]
    [] o.op = "cadd"       -> [S EXCEPT !.added = TRUE]
    \* RemoveRoute(path, method) of the o.b-th registered route (method+path are unique among the registered routes)
    [] o.op = "rm"         -> [S EXCEPT !.routes = [i \in 1..(Len(@) - 1) |-> IF i < o.b THEN @[i] ELSE @[i + 1]]]
    [] o.op = "wsProduces" -> [S EXCEPT !.wprod = o.v]
    [] o.op = "wsConsumes" -> [S EXCEPT !.wcons = o.v]
    [] o.op = "wsFilter"   -> [S EXCEPT !.nf = @ + 1, !.wfl = Append(@, S.nf + 1)]
    [] o.op = "new"        -> [S EXCEPT !.made = @ + 1,
                                        !.bs[o.b] = [NoBuilder EXCEPT !.live = TRUE, !.root = S.wroot, !.m = o.m,
                                                                      !.p = o.v[1]]]
    [] o.op = "bPath"      -> [S EXCEPT !.made = @ + 1, !.bs[o.b].p = o.v[1]]
    [] o.op = "bProduces"  -> [S EXCEPT !.bs[o.b].ownP = o.v, !.bs[o.b].implP = o.v, !.bs[o.b].seenP = {}]
    [] o.op = "bConsumes"  -> [S EXCEPT !.bs[o.b].ownC = o.v, !.bs[o.b].implC = o.v, !.bs[o.b].seenC = {}]
    [] o.op = "bFilter"    -> [S EXCEPT !.nf = @ + 1, !.bs[o.b].fl = Append(@, S.nf + 1)]
    [] o.op = "route"      ->
         LET B == S.bs[o.b]
             r == [m |-> B.m, p |-> B.p, root |-> B.root, prod |-> EffP(S, o.b, append), cons |-> EffC(S, o.b),
                   fl |-> B.fl, inhP |-> B.implP = <<>>]
         IN [S EXCEPT !.routes = Append(@, r),
                      !.ok = @ /\ RouteAllowed(S, o.b, r),
                      !.bs[o.b].implP = r.prod, !.bs[o.b].implC = r.cons,
                      !.bs[o.b].seenP = IF B.ownP = <<>> THEN @ \cup {S.wprod} ELSE @,
                      !.bs[o.b].seenC = IF B.ownC = <<>> THEN @ \cup {S.wcons} ELSE @]
    [] OTHER -> S

\* what a request sees of route i (LazyDefaults: inherited Produces are looked up when used)
SeenProd(S, i, lazy) == IF lazy /\ S.routes[i].inhP THEN S.wprod ELSE S.routes[i].prod
Visible(S, lazy) == [i \in 1..Len(S.routes) |->
                       [m |-> S.routes[i].m, p |-> S.routes[i].p, root |-> S.routes[i].root,
                        prod |-> SeenProd(S, i, lazy), cons |-> S.routes[i].cons, fl |-> S.routes[i].fl]]
=============================================================================

---------------------------- MODULE MC_Dispatch ----------------------------
(***************************************************************************)
(* Layer B: Container.dispatch as a state machine - one action per step of *)
(* the code (container.go:200-300, filter.go:18): optional installation of *)
(* a compressing writer (acquire), FilterChain.ProcessFilter advancing its *)
(* index, the target (route function or service-error writer), returns,    *)
(* panics at every position, and the two deferred functions (recover, then *)
(* close+release) in the order the code registers them.  Every event the   *)
(* model emits is fed to the Layer A monitor (Dispatch!Step); the          *)
(* invariant says the monitor accepts everything the model does.           *)
(* Two requests are served one after the other (fresh chain, pool reuse).  *)
(* Counter-models: SharedChain (chain index survives a request),           *)
(* DefersSwapped (compressor closed before the recover handler writes),    *)
(* NoCloseOnPanic (compressor not released when a panic unwinds).          *)
(* Every explored configuration is exported and replayed on the real       *)
(* Container by the Go harness.                                            *)
(***************************************************************************)
EXTENDS Dispatch, Json, TLC

CONSTANTS Tier, SharedChain, DefersSwapped, NoCloseOnPanic

Quick == Tier = "quick"
Scripts == {"pass", "stop", "replace", "pb", "pa"}
Levels == IF Quick THEN {<<1, 1, 1>>, <<2, 0, 1>>, <<0, 0, 0>>, <<0, 2, 0>>} ELSE {<<a, b, c>> : a \in 0..2, b \in 0..2, c \in 0..1}
\* all-pass except at most one deviating filter (quick) / two (thorough)
ScriptSeqs(n) ==
  LET all == [i \in 1..n |-> "pass"] IN
  {all} \cup {[all EXCEPT ![i] = s] : i \in 1..n, s \in Scripts \ {"pass"}}
        \cup (IF Quick THEN {} ELSE
              {[all EXCEPT ![i] = s, ![j] = t] : i \in 1..n, j \in 1..n, s \in {"replace", "pa"}, t \in Scripts \ {"pass"}})
Cfgs == {[lv |-> lv, sc |-> sc, tgt |-> t, routed |-> r, rec |-> rc, enc |-> e] :
           lv \in Levels, sc \in UNION {ScriptSeqs(n) : n \in 0..5}, t \in {"ok", "panic"},
           r \in BOOLEAN, rc \in BOOLEAN, e \in BOOLEAN}
ValidCfg(c) == Len(c.sc) = c.lv[1] + c.lv[2] + c.lv[3]

VARIABLES cfg, pc, idx, stk, passing, w, obj, pan, mon, nreq, free, badWrite, pair, who
vars == <<cfg, pc, idx, stk, passing, w, obj, pan, mon, nreq, free, badWrite, pair, who>>

NAll == cfg.lv[1] + cfg.lv[2] + cfg.lv[3]
\* filters that run: all three levels for a routed request, container filters otherwise
NRun == IF cfg.routed THEN NAll ELSE cfg.lv[1]
Script(i) == cfg.sc[i]

Init == /\ cfg \in {c \in Cfgs : ValidCfg(c)}
        /\ pc = "start" /\ idx = 0 /\ stk = <<>> /\ passing = {} /\ w = "raw" /\ obj = 0 /\ pan = FALSE
        /\ mon = MonInit(0, FALSE, 1, 1) /\ nreq = 0 /\ free = {} /\ badWrite = FALSE /\ pair = 1 /\ who = 0

Emit(m, e) == Step(m, e)
AttrsSeen(i) == 1..(i - 1)   \* every earlier filter set its attribute before passing

Start ==
  /\ pc = "start"
  /\ LET m0 == MonInit(NRun, cfg.rec, 1, 1)
         wrap == cfg.enc /\ cfg.routed      \* dispatch installs the compressor after successful routing
         o == IF free # {} THEN CHOOSE x \in free : TRUE ELSE nreq + 1
     IN /\ mon' = IF wrap THEN Emit(m0, Ev("acq", o, 0, 0, {})) ELSE m0
        /\ w' = IF wrap THEN "open" ELSE "raw"
        /\ obj' = IF wrap THEN o ELSE 0
        /\ free' = IF wrap THEN free \ {o} ELSE free
  /\ idx' = IF SharedChain THEN idx ELSE 0
  /\ pc' = "chain" /\ pair' = 1 /\ stk' = <<>> /\ passing' = {} /\ pan' = FALSE /\ who' = 0
  /\ UNCHANGED <<cfg, nreq, badWrite>>

\* FilterChain.ProcessFilter
Chain ==
  /\ pc = "chain"
  /\ IF idx < NRun
     THEN /\ idx' = idx + 1 /\ stk' = Append(stk, idx + 1)
          /\ mon' = Emit(mon, EvW("enter", idx + 1, pair, pair, AttrsSeen(idx + 1), who))
          /\ pc' = "filter" /\ UNCHANGED pan
     ELSE /\ mon' = IF cfg.tgt = "panic"
                    THEN Emit(Emit(mon, EvW("target", 0, pair, pair, AttrsSeen(NRun + 1), who)), Ev("panic", 0, 0, 0, {}))
                    ELSE Emit(mon, EvW("target", 0, pair, pair, AttrsSeen(NRun + 1), who))
          /\ pan' = (cfg.tgt = "panic")
          /\ pc' = IF cfg.tgt = "panic" THEN "defers" ELSE "unwind"
          /\ UNCHANGED <<idx, stk>>
  /\ UNCHANGED <<cfg, passing, w, obj, nreq, free, badWrite, pair, who>>

InFilter ==
  /\ pc = "filter"
  /\ LET i == Top(stk)   s == Script(i) IN
     CASE s \in {"pass", "pa"} ->
            /\ mon' = Emit(mon, EvW("pass", i, pair, pair, {}, i)) /\ passing' = passing \cup {i}
            /\ who' = i /\ pc' = "chain" /\ UNCHANGED <<stk, pan, pair>>
       [] s = "replace" ->
            /\ mon' = Emit(mon, EvW("pass", i, pair + 1, pair + 1, {}, i)) /\ passing' = passing \cup {i}
            /\ who' = i /\ pair' = pair + 1 /\ pc' = "chain" /\ UNCHANGED <<stk, pan>>
       [] s = "stop" ->
            /\ mon' = Emit(mon, Ev("exit", i, 0, 0, {})) /\ stk' = Pop(stk)
            /\ pc' = "unwind" /\ UNCHANGED <<passing, pan, pair, who>>
       [] s = "pb" ->
            /\ mon' = Emit(mon, Ev("panic", i, 0, 0, {})) /\ pan' = TRUE
            /\ pc' = "defers" /\ UNCHANGED <<stk, passing, pair, who>>
  /\ UNCHANGED <<cfg, idx, w, obj, nreq, free, badWrite>>

Unwind ==
  /\ pc = "unwind"
  /\ IF stk = <<>> THEN pc' = "defers" /\ UNCHANGED <<stk, passing, mon, pan>>
     ELSE LET i == Top(stk) IN
          IF Script(i) = "pa"
          THEN /\ mon' = Emit(Emit(mon, Ev("ret", i, 0, 0, {})), Ev("panic", i, 0, 0, {}))
               /\ passing' = passing \ {i} /\ pan' = TRUE /\ pc' = "defers" /\ UNCHANGED stk
          ELSE /\ mon' = Emit(Emit(mon, Ev("ret", i, 0, 0, {})), Ev("exit", i, 0, 0, {}))
               /\ passing' = passing \ {i} /\ stk' = Pop(stk) /\ pc' = "unwind" /\ UNCHANGED pan
  /\ UNCHANGED <<cfg, idx, w, obj, nreq, free, badWrite, pair, who>>

\* the two deferred functions of dispatch: registered close first, recover second => recover
\* runs first and may still write through the (possibly compressing) writer
Recovering(m) == IF pan /\ cfg.rec THEN Emit(m, Ev("recover", 0, 0, 0, {})) ELSE m
Closing(m) == IF w = "open" /\ ~(NoCloseOnPanic /\ pan) THEN Emit(m, Ev("rel", obj, 0, 0, {})) ELSE m
Defers ==
  /\ pc = "defers"
  /\ mon' = IF DefersSwapped THEN Recovering(Closing(mon)) ELSE Closing(Recovering(mon))
  /\ badWrite' = (badWrite \/ (DefersSwapped /\ pan /\ cfg.rec /\ w = "open"))
  /\ w' = IF w = "open" /\ ~(NoCloseOnPanic /\ pan) THEN "closed" ELSE w
  /\ free' = IF w = "open" /\ ~(NoCloseOnPanic /\ pan) THEN free \cup {obj} ELSE free
  /\ pc' = "end"
  /\ UNCHANGED <<cfg, idx, stk, passing, obj, pan, nreq, pair, who>>

End ==
  /\ pc = "end"
  /\ mon' = Emit(mon, Ev("end", IF pan /\ ~cfg.rec THEN 1 ELSE 0, 0, 0, {}))
  /\ nreq' = nreq + 1
  /\ pc' = IF nreq + 1 < 2 THEN "start" ELSE "done"
  /\ UNCHANGED <<cfg, idx, stk, passing, w, obj, pan, free, badWrite, pair, who>>

Next == Start \/ Chain \/ InFilter \/ Unwind \/ Defers \/ End
Spec == Init /\ [][Next]_vars

\* Layer B inside Layer A: the monitor accepts every event of every behaviour
MonitorAccepts == mon.ok
\* C10: the recover handler can still write (the compressor is not yet closed)
RecoverCanWrite == ~badWrite
\* the pool never hands out an object that is held
Export == (pc = "start" /\ nreq = 0) => PrintT("CASE " \o ToJson(cfg))
=============================================================================

------------------------------ MODULE Routing ------------------------------
(***************************************************************************)
(* Layer A for route selection (properties C01-C04, C14, C17, C18; used by *)
(* C09, C11, C12, C19).  It says which observable outcomes of dispatching  *)
(* a request to a table of WebServices are ALLOWED.  It is independent of  *)
(* how either router computes its answer.                                  *)
(*                                                                         *)
(* Where the properties leave a reading open (empty segments, partial      *)
(* regex matches, q=0, type wildcards, ...) every fact has two readings,   *)
(* Must (2) and May (1); an outcome is legal when SOME resolution of the   *)
(* uncertain facts produces it.  For ordinary inputs nothing is uncertain  *)
(* and exactly one error outcome / one set of best routes is legal.        *)
(***************************************************************************)
EXTENDS Templates, Mime

\* ---------- data ----------
\* raw table (as logged / generated): Seq([root, routes : Seq([m, p, cons, prod, conds, noct])])
\* request: [m, path, ct, acc, clen, clh, conds : Seq(Nat)]
\* RouteBuilder.copyDefaults: a route without Produces / Consumes of its own inherits the WebService's
\* (field names wprod / wcons are optional in logged tables: absent means none)
WsProd(s) == IF "wprod" \in DOMAIN s THEN s.wprod ELSE <<>>
WsCons(s) == IF "wcons" \in DOMAIN s THEN s.wcons ELSE <<>>
PrepRoute(root, r, wprod, wcons) ==
  LET full == FullTemplate(root, r.p) IN
  [m |-> r.m, p |-> r.p, full |-> full, pt |-> ParseTemplate(full),
   cons |-> IF r.cons = <<>> THEN wcons ELSE r.cons, prod |-> IF r.prod = <<>> THEN wprod ELSE r.prod,
   conds |-> SeqToSet(r.conds), noct |-> r.noct]
PrepService(s) ==
  [root |-> s.root, rt |-> ParseTemplate(s.root),
   routes |-> [i \in 1..Len(s.routes) |-> PrepRoute(s.root, s.routes[i], WsProd(s), WsCons(s))]]
Prepare(services) == [i \in 1..Len(services) |-> PrepService(services[i])]

\* ---------- specificity ----------
AllLit(t) == \A i \in 1..Len(t) : IsLit(t[i])
TokPrefix(t1, t2) == Len(t1) < Len(t2) /\ \A i \in 1..Len(t1) : t1[i].src = t2[i].src
\* t2 has a literal where t1 has a variable, same shape otherwise
LitOverVar(t2, t1) ==
  /\ Len(t1) = Len(t2)
  /\ \A i \in 1..Len(t1) :
       \/ IsLit(t1[i]) /\ t2[i].src = t1[i].src
       \/ IsVarLike(t1[i]) /\ (IsVarLike(t2[i]) \/ IsLit(t2[i]))
  /\ \E i \in 1..Len(t1) : IsVarLike(t1[i]) /\ IsLit(t2[i])

\* root t2 is strictly more specific than root t1 (both claim the URL)
RootDominates(prof, t2, t1) ==
  IF prof = "jsr311"
  THEN AllLit(t1) /\ AllLit(t2) /\ TokPrefix(t1, t2)
  ELSE TokPrefix(t1, t2) \/ LitOverVar(t2, t1)
RouteDominates(t2, t1) == LitOverVar(t2, t1)

\* ---------- facts about one request ----------
ReqToks(req) == Tokenize(req.path)

ServiceClaim(S, rt, canon) ==
  IF canon /\ ClaimMust(S.rt, rt) THEN 2 ELSE IF ClaimMay(S.rt, rt) THEN 1 ELSE 0

BestMay(prof, T, rt, canon) ==
  LET cl == [w \in 1..Len(T) |-> ServiceClaim(T[w], rt, canon)] IN
  {w \in 1..Len(T) : /\ cl[w] >= 1
                     /\ ~\E w2 \in 1..Len(T) : cl[w2] = 2 /\ RootDominates(prof, T[w2].rt, T[w].rt)}
NoServiceOK(T, rt, canon) == \A w \in 1..Len(T) : ServiceClaim(T[w], rt, canon) < 2

RouteFacts(S, req, rt, canon) ==
  [r \in 1..Len(S.routes) |->
     LET R == S.routes[r] IN
     [pm   |-> IF canon /\ PathMust(R.pt, rt) THEN 2 ELSE IF PathMay(R.pt, rt) THEN 1 ELSE 0,
      cond |-> R.conds \subseteq SeqToSet(req.conds),
      meth |-> R.m = req.m,
      ct   |-> CtAdmits(R.m, R.cons, R.noct, req.ct),
      am   |-> IF AcceptMust(R.prod, req.acc) THEN 2 ELSE IF AcceptMay(R.prod, req.acc) THEN 1 ELSE 0]]

Bodiless(req) == req.m \in {"POST", "PUT", "PATCH"} /\ req.clh \in {"", "0"}

\* the staged decision of C02 for one resolution (S1: uncertain path matches taken as
\* matching, S2: uncertain Accept matches taken as matching)
Stage(S, F, S1, S2, req) ==
  LET P  == {r \in DOMAIN F : F[r].pm = 2} \cup S1
      C  == {r \in P : F[r].cond}
      M  == {r \in C : F[r].meth}
      Tt == {r \in M : F[r].ct}
      A  == {r \in Tt : F[r].am = 2 \/ r \in S2}
      E(st, al) == [k |-> "err", st |-> st, allows |-> al, A |-> {}]
  IN IF C = {} THEN E(404, {})
     ELSE IF M = {} THEN E(405, {{S.routes[r].m : r \in C}, {S.routes[r].m : r \in P}})
     ELSE IF Tt = {} /\ req.clen > 0 THEN E(415, {})
     ELSE IF A = {} THEN (IF Bodiless(req) THEN E(415, {}) ELSE E(406, {}))
     ELSE [k |-> "routes", st |-> 0, allows |-> {}, A |-> A]

Resolutions(F) ==
  {<<S1, S2>> : S1 \in SUBSET {r \in DOMAIN F : F[r].pm = 1},
                S2 \in SUBSET {r \in DOMAIN F : F[r].pm >= 1 /\ F[r].am = 1}}

\* ---------- parameters (C04) ----------
ParamSet(o) == {<<o.params[i][1], o.params[i][2]>> : i \in 1..Len(o.params)}
ParamNames(o) == {o.params[i][1] : i \in 1..Len(o.params)}
VarIdx(pt) == {i \in 1..Len(pt) : pt[i].kind # "lit"}
\* a tail wildcard stands for the remaining segments joined by "/" (whether the request's
\* trailing slashes belong to it is left open); any other variable for its segment's value
ValueOK(pt, rt, path, i, v) ==
  IF pt[i].kind = "tail"
  THEN IF Canon(path)
       THEN /\ TrimR(v, "/") = TrimR(TailJoin(rt, i), "/")
            /\ v = TailJoin(rt, i) \/ EndsWithSlash(path)
       \* repeated slashes: which of them belong to the tail is left open
       ELSE Trim(v, "/") = Trim(TailJoin(rt, i), "/")
  ELSE v = (IF i <= Len(rt) THEN Value(pt[i], rt[i]) ELSE "")
ParamsExact(R, rt, path, o) ==
  \A i \in VarIdx(R.pt) :
     \E k \in 1..Len(o.params) : o.params[k][1] = R.pt[i].name /\ ValueOK(R.pt, rt, path, i, o.params[k][2])
ParamsNames(R, o) == /\ ParamNames(o) = VarNames(R.pt)
                     /\ Len(o.params) = Cardinality(ParamNames(o))
ParamVal(o, name) == LET i == CHOOSE j \in 1..Len(o.params) : o.params[j][1] = name IN o.params[i][2]
\* substituting the bound values into the template gives the request path again
RoundTrip(R, rt, path, o) ==
  LET n == Len(R.pt)
      sub == [i \in 1..n |-> IF R.pt[i].kind = "lit" THEN SubstTok(R.pt[i], "")
                             ELSE SubstTok(R.pt[i], ParamVal(o, R.pt[i].name))]
      back == JoinWith(sub, "/")
  IN Trim(back, "/") = Trim(JoinWith(rt, "/"), "/")
ParamsOK(R, rt, path, o) ==
  ParamsNames(R, o) /\ ParamsExact(R, rt, path, o) /\ RoundTrip(R, rt, path, o)

\* ---------- legality of one observation ----------
\* everything about (profile, table, request) that does not depend on the observation
Ctx(prof, T, req) ==
  LET rt == ReqToks(req)   canon == Canon(req.path)
      best == BestMay(prof, T, rt, canon)
  IN [rt |-> rt, canon |-> canon, best |-> best, noSvc |-> NoServiceOK(T, rt, canon),
      F |-> [w \in best |-> RouteFacts(T[w], req, rt, canon)]]

\* o: [k: "route"|"err"|"panic", ws, rt, params, st, allow, ran, selp, selm]
LegalIn(S, w, req, c, o) ==
  LET F == c.F[w] IN
  \E res \in Resolutions(F) :
     LET st == Stage(S, F, res[1], res[2], req) IN
     IF o.k = "err"
     THEN st.k = "err" /\ st.st = o.st /\ (o.st = 405 => SeqToSet(o.allow) \in st.allows)
     ELSE /\ o.ws = w /\ st.k = "routes" /\ o.rt \in st.A
          /\ ~\E r2 \in st.A : RouteDominates(S.routes[r2].pt, S.routes[o.rt].pt)
          /\ ParamsOK(S.routes[o.rt], c.rt, req.path, o)

LegalC(T, req, c, o) ==
  /\ o.k \in {"route", "err"}
  /\ o.k = "route" => o.ws \in 1..Len(T) /\ o.rt \in 1..Len(T[o.ws].routes)
  /\ \/ o.k = "err" /\ o.st = 404 /\ c.noSvc
     \/ \E w \in c.best : (o.k = "route" => o.ws = w) /\ LegalIn(T[w], w, req, c, o)

Legal(prof, T, req, o) == LegalC(T, req, Ctx(prof, T, req), o)

\* ---------- which clause does an illegal observation break ----------
Diagnose(prof, T, req, o) ==
  LET rt == ReqToks(req)   canon == Canon(req.path) IN
  IF o.k = "panic" THEN "C02.total"
  ELSE IF o.k = "err" THEN
    IF o.st \notin {404, 405, 406, 415} THEN "C02.status"
    ELSE IF o.st = 405
              /\ \E w \in BestMay(prof, T, rt, canon) :
                   LET F == RouteFacts(T[w], req, rt, canon) IN
                   \E res \in Resolutions(F) : Stage(T[w], F, res[1], res[2], req).st = 405
         THEN "C02.allowset"
    ELSE "C02.status"
  ELSE IF ~(o.ws \in 1..Len(T) /\ o.rt \in 1..Len(T[o.ws].routes)) THEN "C01.selected"
  ELSE LET S == T[o.ws]
           R == S.routes[o.rt]
           F == RouteFacts(S, req, rt, canon)
       IN IF ServiceClaim(S, rt, canon) = 0 \/ F[o.rt].pm = 0 THEN "C01.path"
          ELSE IF ~F[o.rt].meth THEN "C01.method"
          ELSE IF ~F[o.rt].cond THEN "C01.cond"
          ELSE IF ~F[o.rt].ct THEN "C01.ct"
          ELSE IF F[o.rt].am = 0 THEN "C01.accept"
          ELSE IF o.ws \notin BestMay(prof, T, rt, canon) THEN "C03.root"
          ELSE IF \E r2 \in DOMAIN F :
                    /\ F[r2].pm = 2 /\ F[r2].cond /\ F[r2].meth /\ F[r2].ct /\ F[r2].am = 2
                    /\ RouteDominates(S.routes[r2].pt, R.pt) THEN "C03.route"
          ELSE IF ~ParamsNames(R, o) THEN "C04.names"
          ELSE IF ~ParamsExact(R, rt, req.path, o) THEN "C04.exact"
          ELSE IF ~RoundTrip(R, rt, req.path, o) THEN "C04.roundtrip"
          ELSE "C02.status"

\* clauses judged on every observation, legal or not
SelectedOK(T, o) ==
  o.k = "route" /\ o.ws \in 1..Len(T) /\ o.rt \in 1..Len(T[o.ws].routes)
     => o.selp = T[o.ws].routes[o.rt].full /\ o.selm = T[o.ws].routes[o.rt].m
OnceOK(o) == o.k # "panic" => o.ran = (IF o.k = "route" THEN 1 ELSE 0)

\* ---------- qualifiers of the relational properties ----------
SameShape(t1, t2) ==
  /\ Len(t1) = Len(t2)
  /\ \A i \in 1..Len(t1) : \/ IsLit(t1[i]) /\ IsLit(t2[i]) /\ t1[i].src = t2[i].src
                           \/ ~IsLit(t1[i]) /\ ~IsLit(t2[i])
\* C03: (method, template) pairs distinct up to variable names; no two roots of one shape
PlainRename(t1, t2) ==
  /\ Len(t1) = Len(t2)
  /\ \A i \in 1..Len(t1) : \/ t1[i].src = t2[i].src
                           \/ /\ t1[i].kind = t2[i].kind /\ t1[i].kind # "lit"
                              /\ t1[i].pre = t2[i].pre /\ t1[i].suf = t2[i].suf
                              /\ t1[i].re = t2[i].re /\ t1[i].verb = t2[i].verb
\* (RouterJSR311 ranks WebServices with variables in their root path by criteria the property
\* does not cover: its order independence is claimed for literal root paths only)
OrderQualifies(prof, T) ==
  /\ prof = "jsr311" => \A w \in 1..Len(T) : AllLit(T[w].rt)
  /\ \A w1, w2 \in 1..Len(T) : w1 # w2 => ~SameShape(T[w1].rt, T[w2].rt)
  /\ \A w \in 1..Len(T) : \A r1, r2 \in 1..Len(T[w].routes) :
       r1 # r2 /\ T[w].routes[r1].m = T[w].routes[r2].m
          => ~PlainRename(T[w].routes[r1].pt, T[w].routes[r2].pt)
\* C14: at least one non-empty segment, no trailing slash on the base path; RouterJSR311
\* only on tables without tail wildcards
SlashQualifies(prof, T, req) ==
  /\ Canon(req.path) /\ req.path # "/" /\ ~EndsWithSlash(req.path)
  /\ prof = "jsr311" => \A w \in 1..Len(T) : \A r \in 1..Len(T[w].routes) : ~HasTail(T[w].routes[r].pt)
\* C18: literal roots; route segments literal or plain variables
PlainTok(p) == p.verb = "" /\ (p.kind = "lit" \/ (p.kind = "var" /\ p.pre = "" /\ p.suf = ""))
CommonFragment(T) ==
  \A w \in 1..Len(T) : /\ AllLit(T[w].rt) /\ \A i \in 1..Len(T[w].rt) : T[w].rt[i].verb = ""
                       /\ \A r \in 1..Len(T[w].routes) :
                            \A i \in 1..Len(T[w].routes[r].pt) : PlainTok(T[w].routes[r].pt[i])
\* requests on which both routers are specified: canonical, no empty segment
AgreeQualifies(T, req) == CommonFragment(T) /\ Canon(req.path)

\* what clients can tell apart
Outcome(o) == IF o.k = "route" THEN <<"route", o.ws, o.rt, ParamSet(o)>>
              ELSE IF o.k = "err" THEN <<"err", o.st, IF o.st = 405 THEN SeqToSet(o.allow) ELSE {}>>
              ELSE <<"panic">>
=============================================================================

-------------------------- MODULE MC_RegistryConc --------------------------
(***************************************************************************)
(* C12: the lock discipline of Container and WebService.  Every operation  *)
(* is a straight-line program of lock operations and accesses to the       *)
(* shared variables (mux pointer, webServices list, a service's routes     *)
(* slice); threads interleave at that granularity.  sync.RWMutex is        *)
(* modelled with readers, one writer, and "a waiting writer blocks new     *)
(* readers".  TLC checks                                                   *)
(*   NoDataRace - never two threads about to access one variable, at least *)
(*                one writing (co-enabled conflicting accesses),           *)
(*   no deadlock (TLC's deadlock check; Terminated states stutter),        *)
(*   Completion  - under weak fairness every started operation finishes.   *)
(* Constants describe the code:                                            *)
(*   CurlyUsesRoutesAccessor - CurlyRouter reads a service's routes via    *)
(*        Routes() (read lock + copy); FALSE = reads ws.routes directly    *)
(*   ServeReadsMuxUnderLock  - ServeHTTP reads c.ServeMux under the read   *)
(*        lock; FALSE = plain read                                         *)
(*   HandleLocks - Handle takes the write lock                             *)
(***************************************************************************)
EXTENDS Integers, Sequences, FiniteSets, TLC

CONSTANTS CurlyUsesRoutesAccessor, ServeReadsMuxUnderLock, HandleLocks, Threads

\* programs: sequences of <<op, object>>
ReadMux == IF ServeReadsMuxUnderLock THEN <<<<"rlock", "ws">>, <<"read", "mux">>, <<"runlock", "ws">>>>
           ELSE <<<<"read", "mux">>>>
SelectRoutes(router) ==
  IF router = "jsr311" \/ CurlyUsesRoutesAccessor
  THEN <<<<"rlock", "rt">>, <<"read", "routes">>, <<"runlock", "rt">>>>
  ELSE <<<<"read", "routes">>>>
DispatchProg(router) ==
  <<<<"rlock", "ws">>, <<"read", "list">>>> \o SelectRoutes(router) \o <<<<"runlock", "ws">>>>
Prog(kind) ==
  CASE kind = "serveCurly"  -> ReadMux \o DispatchProg("curly")
    [] kind = "serveJsr"    -> ReadMux \o DispatchProg("jsr311")
    [] kind = "dispatchCurly" -> DispatchProg("curly")
    [] kind = "add"    -> <<<<"lock", "ws">>, <<"read", "list">>, <<"write", "list">>, <<"unlock", "ws">>>>
    [] kind = "remove" -> <<<<"lock", "ws">>, <<"read", "list">>, <<"write", "list">>, <<"write", "mux">>, <<"unlock", "ws">>>>
    [] kind = "route"  -> <<<<"lock", "rt">>, <<"write", "routes">>, <<"unlock", "rt">>>>
    [] kind = "removeRoute" -> <<<<"lock", "rt">>, <<"write", "routes">>, <<"unlock", "rt">>>>
    [] kind = "handle" -> IF HandleLocks THEN <<<<"lock", "ws">>, <<"read", "mux">>, <<"unlock", "ws">>>>
                          ELSE <<<<"read", "mux">>>>
    [] kind = "options" -> \* computeAllowedMethods inside a filter: RegisteredWebServices + Routes()
         <<<<"rlock", "ws">>, <<"read", "list">>, <<"runlock", "ws">>, <<"rlock", "rt">>, <<"read", "routes">>, <<"runlock", "rt">>>>

\* Threads: a function thread id -> kind (one operation each; TLC is run on several mixes)
T == DOMAIN Threads
Locks == {"ws", "rt"}

VARIABLES pc, readers, writer, waiting
vars == <<pc, readers, writer, waiting>>
Init == /\ pc = [t \in T |-> 1]
        /\ readers = [l \in Locks |-> {}] /\ writer = [l \in Locks |-> 0] /\ waiting = [l \in Locks |-> {}]

P(t) == Prog(Threads[t])
AtEnd(t) == pc[t] > Len(P(t))
Instr(t) == P(t)[pc[t]]
Adv(t) == pc' = [pc EXCEPT ![t] = @ + 1]

Step(t) ==
  /\ ~AtEnd(t)
  /\ LET i == Instr(t)   op == i[1]   o == i[2] IN
     CASE op = "rlock" ->
            \* blocked by a writer holding the lock or waiting for it
            /\ writer[o] = 0 /\ waiting[o] = {}
            /\ readers' = [readers EXCEPT ![o] = @ \cup {t}] /\ Adv(t) /\ UNCHANGED <<writer, waiting>>
       [] op = "runlock" ->
            /\ readers' = [readers EXCEPT ![o] = @ \ {t}] /\ Adv(t) /\ UNCHANGED <<writer, waiting>>
       [] op = "lock" ->
            IF writer[o] = 0 /\ readers[o] = {}
            THEN /\ writer' = [writer EXCEPT ![o] = t] /\ waiting' = [waiting EXCEPT ![o] = @ \ {t}]
                 /\ Adv(t) /\ UNCHANGED readers
            ELSE \* announce the pending writer (blocks new readers), stay at this instruction
                 /\ t \notin waiting[o]
                 /\ waiting' = [waiting EXCEPT ![o] = @ \cup {t}] /\ UNCHANGED <<pc, readers, writer>>
       [] op = "unlock" ->
            /\ writer' = [writer EXCEPT ![o] = 0] /\ Adv(t) /\ UNCHANGED <<readers, waiting>>
       [] op \in {"read", "write"} -> Adv(t) /\ UNCHANGED <<readers, writer, waiting>>

Terminated == \A t \in T : AtEnd(t)
Next == (\E t \in T : Step(t)) \/ (Terminated /\ UNCHANGED vars)
Spec == Init /\ [][Next]_vars
FairSpec == Spec /\ \A t \in T : WF_vars(Step(t))

Access(t) == ~AtEnd(t) /\ Instr(t)[1] \in {"read", "write"}
NoDataRace ==
  \A t1, t2 \in T :
     t1 # t2 /\ Access(t1) /\ Access(t2) /\ Instr(t1)[2] = Instr(t2)[2]
        => Instr(t1)[1] = "read" /\ Instr(t2)[1] = "read"
\* a reader never holds the lock while a writer holds it
LockSound == \A l \in Locks : writer[l] # 0 => readers[l] = {}
Completion == <>Terminated
=============================================================================

----------------------------- MODULE PureTrace -----------------------------
(***************************************************************************)
(* Trace validation for C19.  For every configuration the harness first    *)
(* records each request key on a FRESH container (phase "fresh": binds     *)
(* seen[key]); every later observation of that key - at any position of a  *)
(* sequential history, inside a concurrent batch, with tracing on - must   *)
(* equal it (C19.function) and must have seen its own parameters,          *)
(* attributes and selected route (C19.isolation).                          *)
(***************************************************************************)
EXTENDS Integers, Sequences, FiniteSets, Json, IOUtils, TLC

Trace == ndJsonDeserialize(IOEnv.TRACE_FILE)
VARIABLES l, seen
Mis(line, clause, d) == PrintT("MISMATCH " \o ToJson([line |-> line, clause |-> clause, out |-> 0, variant |-> d]))
Bump(k) == TLCSet(k, TLCGet(k) + 1)
\* registers: 1 line, 2 observations judged, 3 repeated observations (history position > first),
\* 4 observations made inside a concurrent batch, 5 with tracing enabled

Check(line, ev) ==
  /\ Bump(2)
  /\ IF ev.phase # "fresh" THEN Bump(3) ELSE TRUE
  /\ IF ev.phase = "conc" THEN Bump(4) ELSE TRUE
  /\ IF ev.trace THEN Bump(5) ELSE TRUE
  /\ IF ev.iso THEN TRUE ELSE Mis(line, "C19.isolation", <<ev.key>>)
  /\ IF ev.phase = "fresh" \/ ev.key \notin DOMAIN seen THEN TRUE
     ELSE IF seen[ev.key] = ev.proj THEN TRUE ELSE Mis(line, "C19.function", <<ev.key, ev.phase>>)

Init == l = 1 /\ seen = [k \in {} |-> 0]
Next == /\ l <= Len(Trace) /\ l' = l + 1
        /\ LET ev == Trace[l] IN
           /\ seen' = CASE ev.e = "pcfg" -> [k \in {} |-> 0]
                        [] ev.e = "pobs" /\ ev.phase = "fresh" ->
                             [k \in DOMAIN seen \cup {ev.key} |-> IF k = ev.key THEN ev.proj ELSE seen[k]]
                        [] OTHER -> seen
           /\ ev.e = "pobs" => Check(l, ev)
        /\ TLCSet(1, l)
Spec == Init /\ [][Next]_<<l, seen>>
ASSUME \A k \in 1..5 : TLCSet(k, 0)
AllConsumed ==
  /\ PrintT("COUNTERS " \o ToJson([k \in 2..5 |-> TLCGet(k)]))
  /\ IF TLCGet(1) = Len(Trace) THEN PrintT("CONSUMED " \o ToString(Len(Trace)))
     ELSE PrintT("STOPPED-AT " \o ToString(TLCGet(1)))
=============================================================================

----------------------------- MODULE MC_Entity -----------------------------
(***************************************************************************)
(* C16, history part: what earlier requests leave behind in pooled gzip    *)
(* readers must not influence how a later body is decoded.                 *)
(* A request kind is (codec, Content-Type spelling, Content-Encoding,      *)
(* damage).  Readers live in a provider (bounded cache of capacity K, or   *)
(* the sync.Pool bag); each reader carries the residue of the body it last *)
(* read (none / clean / poisoned by an error).  Request.ReadEntity         *)
(* (request.go:75) acquires a reader for gzip bodies, RESETS it onto the   *)
(* new body, decodes, and releases it when the call returns - also on the  *)
(* error path.  The outcome must be Outcome(kind), a function of the kind  *)
(* alone.  Counter-models: NoReset (the pooled reader is not reset),       *)
(* LeakOnError (the reader is not released when decoding fails).           *)
(***************************************************************************)
EXTENDS Integers, Sequences, FiniteSets, TLC, Json

CONSTANTS K, MaxReq, SyncPool, NoReset, LeakOnError

Codecs == {"json", "xml"}
Spellings == {"exact", "charset", "default"}
Encodings == {"", "gzip", "deflate"}
Damages == {"none", "truncated", "badheader", "plain", "empty", "syntax"}
Kinds == {k \in [codec : Codecs, ct : Spellings, ce : Encodings, dmg : Damages] :
            /\ k.dmg \in {"badheader", "plain"} => k.ce # ""     \* damage of the declared coding
            /\ k.ct = "charset" => k.codec = "json"}
\* the function of the kind alone that every outcome must equal
Outcome(k) == IF k.dmg = "none" THEN "ok" ELSE "error"

VARIABLES cache, out, hist, last, lastKind, acq, rel, nextR
vars == <<cache, out, hist, last, lastKind, acq, rel, nextR>>
\* cache: sequence of readers in the provider, each [id, residue]; out: readers not in the provider
Init == /\ cache = [i \in 1..K |-> [id |-> i, residue |-> "none"]]
        /\ out = {} /\ hist = <<>> /\ last = "ok" /\ lastKind = CHOOSE k \in Kinds : k.dmg = "none"
        /\ acq = 0 /\ rel = 0 /\ nextR = K + 1

Decode(k, residue) ==
  \* a reader that still holds an older body returns that body's bytes / error first
  IF residue = "poisoned" THEN "error"
  ELSE IF residue = "clean" THEN (IF k.dmg = "none" THEN "stale" ELSE "ok")
  ELSE Outcome(k)

Read(k) ==
  /\ Len(hist) < MaxReq
  /\ IF k.ce = "gzip"
     THEN \E fromCache \in BOOLEAN :
            /\ fromCache => cache # <<>>
            /\ ~fromCache => (cache = <<>> \/ SyncPool)         \* sync.Pool may hand out a new one anyway
            /\ LET rd == IF fromCache THEN Head(cache) ELSE [id |-> nextR, residue |-> "none"]
                   res == IF NoReset THEN rd.residue ELSE "none"
                   o == Decode(k, res)
                   after == [rd EXCEPT !.residue = IF Outcome(k) = "ok" THEN "clean" ELSE "poisoned"]
                   rest == IF fromCache THEN Tail(cache) ELSE cache
                   released == ~(LeakOnError /\ o = "error")
               IN /\ last' = o
                  /\ cache' = IF released /\ (SyncPool \/ Len(rest) < K) THEN Append(rest, after) ELSE rest
                  /\ nextR' = IF fromCache THEN nextR ELSE nextR + 1
                  /\ acq' = acq + 1 /\ rel' = IF released THEN rel + 1 ELSE rel
                  /\ out' = out
     ELSE /\ last' = Outcome(k) /\ UNCHANGED <<cache, nextR, acq, rel, out>>
  /\ lastKind' = k /\ hist' = Append(hist, k)
Next == \E k \in Kinds : Read(k)
Spec == Init /\ [][Next]_vars

\* the outcome is a function of the kind alone, whatever came before
HistoryIndependent == last = Outcome(lastKind)
\* every acquired reader is released exactly once, also on the error path
ReleasedOnce == acq = rel
Export == Len(hist) = MaxReq => PrintT("CASE " \o ToJson([kinds |-> hist]))
=============================================================================

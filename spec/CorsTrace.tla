----------------------------- MODULE CorsTrace -----------------------------
(***************************************************************************)
(* Trace validation for C08 / C09: every response of a real container with *)
(* the real CrossOriginResourceSharing filter (one filter instance per     *)
(* configuration, requests in sequence) next to the response of a twin     *)
(* container without the filter, judged by Layer A of Cors.                *)
(***************************************************************************)
EXTENDS Cors, Json, IOUtils, TLC

Trace == ndJsonDeserialize(IOEnv.TRACE_FILE)
VARIABLES l, cfg
Mis(line, clause, d) == PrintT("MISMATCH " \o ToJson([line |-> line, clause |-> clause, out |-> 0, variant |-> d]))
Bump(k) == TLCSet(k, TLCGet(k) + 1)
\* registers: 1 line, 2 judged responses, 3 requests with an Origin that is not allowed (C08
\* antecedent), 4 granted origins, 5 preflights, 6 refused preflights, 7 granted preflights

AcFn(ev) == [h \in {ev.ac[i][1] : i \in 1..Len(ev.ac)} |->
               (CHOOSE p \in {ev.ac[i] : i \in 1..Len(ev.ac)} : p[1] = h)[2]]
Chk(line, ok, clause, d) == IF ok THEN TRUE ELSE Mis(line, clause, d)

CheckReq(line, ev) ==
  LET req == ev.req
      resp == [ac |-> AcFn(ev), ran |-> ev.ran, later |-> ev.later, proj |-> ev.proj]
      routable == SeqToSet(ev.routable)
  IN /\ Bump(2)
     /\ Chk(line, ~ev.panic, "C08.total", <<>>)
     /\ ~ev.panic =>
        /\ Chk(line, C08NoGrant(cfg, req, resp, ev.twin), "C08.nogrant", ev.ac)
        /\ Chk(line, C08Echo(cfg, req, resp), "C08.echo", ev.ac)
        /\ Chk(line, C08Cred(cfg, req, resp), "C08.cred", ev.ac)
        /\ Chk(line, C09Alone(cfg, req, resp), "C09.alone", <<ev.ran, ev.later>>)
        /\ Chk(line, C09Refuse(cfg, req, resp, routable), "C09.refuse", ev.ac)
        /\ Chk(line, C09Grant(cfg, req, resp, routable), "C09.grant", ev.ac)
        /\ Chk(line, C09Headers(cfg, resp), "C09.grant", <<"header not allowed", ev.ac>>)
        /\ Chk(line, C09Actual(cfg, req, resp, ev.twin), "C09.actual", ev.ac)
     /\ IF req.origin # "" /\ ~OriginAllowed(cfg, req.origin) THEN Bump(3) ELSE TRUE
     /\ IF OriginAllowed(cfg, req.origin) THEN Bump(4) ELSE TRUE
     /\ IF IsPreflight(cfg, req) THEN Bump(5) ELSE TRUE
     /\ IF IsPreflight(cfg, req) /\ ~PreflightGranted(cfg, req, routable) THEN Bump(6) ELSE TRUE
     /\ IF IsPreflight(cfg, req) /\ PreflightGranted(cfg, req, routable) THEN Bump(7) ELSE TRUE

\* stacked filters: what only the second (restrictive) filter grants needs an origin IT allows
CheckStack(line, ev) ==
  LET second == [domains |-> ev.second, pred |-> "none", methods |-> <<>>, headers |-> <<>>, expose |-> <<"X-B">>,
                 cookies |-> TRUE, maxAge |-> 0]
  IN /\ Bump(2)
     /\ Chk(line, ~ev.panic, "C08.total", <<>>)
     /\ Chk(line, (ev.cred \/ ev.xb) => OriginAllowed(second, ev.origin), "C08.cred", <<"second filter", ev.origin>>)

Init == l = 1 /\ cfg = <<>>
Next == /\ l <= Len(Trace) /\ l' = l + 1
        /\ cfg' = IF Trace[l].e = "cfg" THEN Trace[l].cfg ELSE cfg
        /\ Trace[l].e = "creq" => CheckReq(l, Trace[l])
        /\ Trace[l].e = "cstack" => CheckStack(l, Trace[l])
        /\ TLCSet(1, l)
Spec == Init /\ [][Next]_<<l, cfg>>
ASSUME \A k \in 1..7 : TLCSet(k, 0)
AllConsumed ==
  /\ PrintT("COUNTERS " \o ToJson([k \in 2..7 |-> TLCGet(k)]))
  /\ IF TLCGet(1) = Len(Trace) THEN PrintT("CONSUMED " \o ToString(Len(Trace)))
     ELSE PrintT("STOPPED-AT " \o ToString(TLCGet(1)))
=============================================================================

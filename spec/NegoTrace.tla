----------------------------- MODULE NegoTrace -----------------------------
(***************************************************************************)
(* Trace validation for C05: every real Response.WriteEntity observation   *)
(* (Content-Type over 12 repetitions, status, decodability) is judged by   *)
(* Layer A of Negotiation.                                                 *)
(***************************************************************************)
EXTENDS Negotiation, Json, IOUtils, TLC

Trace == ndJsonDeserialize(IOEnv.TRACE_FILE)
VARIABLES l
Mis(line, clause, d) == PrintT("MISMATCH " \o ToJson([line |-> line, clause |-> clause, out |-> 0, variant |-> d]))
Bump(k) == TLCSet(k, TLCGet(k) + 1)
\* registers: 1 line, 2 judged writes, 3 writes with >= 2 Produces entries and >= 2 ranges (a
\* ranking decision), 4 membership-only (malformed q, or no allowed choice)

\* a request may carry several Accept fields; "the Accept header" is then either the first field (what
\* Header.Get returns) or all fields joined by a comma (RFC 7230) - but one reading for the whole request:
\* the handler ran, so under the chosen reading the router may have admitted it
Readings(ev) == {ev.acc} \cup (IF ev.acc2 = "" THEN {} ELSE {ev.acc \o "," \o ev.acc2})
BestUnder(ev, reg, cts) ==
  \E a \in Readings(ev) :
     /\ AcceptMay(ev.produces, a)
     /\ ~WellFormedQ(a) \/ BestSet(ev.produces, reg, a) = {} \/ cts \subseteq BestSet(ev.produces, reg, a)

CheckNego(line, ev) ==
  LET reg  == SeqToSet(ev.registered)
      best == BestSet(ev.produces, reg, ev.acc)
      cts  == SeqToSet(ev.cts)
  IN /\ IF ev.panic THEN Mis(line, "C05.total", <<ev.acc>>) ELSE TRUE
     \* (a route none of whose Produces entries has a registered writer cannot be served at all: only C05.total)
     /\ ev.ran = 1 /\ ~ev.panic /\ SeqToSet(ev.produces) \cap reg # {} =>
          /\ Bump(2)
          /\ IF 406 \in SeqToSet(ev.sts) THEN Mis(line, "C05.no406", ev.sts) ELSE TRUE
          /\ IF Cardinality(cts) <= 1 /\ Len(ev.sts) <= 1 THEN TRUE ELSE Mis(line, "C05.deterministic", ev.cts)
          /\ 406 \notin SeqToSet(ev.sts) =>
               /\ IF cts \subseteq (SeqToSet(ev.produces) \cap reg) THEN TRUE ELSE Mis(line, "C05.member", ev.cts)
               /\ IF ev.acc2 = ""
                  THEN (IF WellFormedQ(ev.acc) /\ best # {}
                        THEN (IF cts \subseteq best THEN TRUE ELSE Mis(line, "C05.best", <<ev.cts, SetToSeq(best)>>))
                        ELSE Bump(4))
                  ELSE (IF BestUnder(ev, reg, cts) THEN TRUE ELSE Mis(line, "C05.best", <<ev.cts, ev.acc, ev.acc2>>))
               /\ IF ev.dec THEN TRUE ELSE Mis(line, "C05.decodes", ev.cts)
          /\ IF Len(ev.produces) >= 2 /\ ev.acc # "" /\ Len(AcceptRanges(ev.acc)) >= 2 THEN Bump(3) ELSE TRUE

Init == l = 1
Next == /\ l <= Len(Trace) /\ l' = l + 1
        /\ Trace[l].e = "nego" => CheckNego(l, Trace[l])
        /\ TLCSet(1, l)
Spec == Init /\ [][Next]_l
ASSUME \A k \in 1..4 : TLCSet(k, 0)
AllConsumed ==
  /\ PrintT("COUNTERS " \o ToJson([k \in 2..4 |-> TLCGet(k)]))
  /\ IF TLCGet(1) = Len(Trace) THEN PrintT("CONSUMED " \o ToString(Len(Trace)))
     ELSE PrintT("STOPPED-AT " \o ToString(TLCGet(1)))
=============================================================================

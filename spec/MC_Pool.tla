------------------------------ MODULE MC_Pool ------------------------------
(***************************************************************************)
(* C13: pooled compressors.  N processes each run Rounds times             *)
(*   Acquire -> use -> Close (release) [-> second Close]                   *)
(* against one provider.  The bounded cache is a channel of capacity K     *)
(* pre-filled with K objects (compressor_cache.go); Acquire is a           *)
(* non-blocking receive or a new object.  Release is, as the code performs *)
(* it,                                                                     *)
(*   AtomicRelease = TRUE : one non-blocking send (select/default)         *)
(*   AtomicRelease = FALSE: Check (len(ch) < cap) and then a blocking Send *)
(*                          - two separately enabled steps (legacy)        *)
(* The sync.Pool provider is a bag that may drop objects (SyncPool = TRUE).*)
(* Invariants (Layer A): Exclusive, ReleasedOnce, NeverBlocks (a state     *)
(* invariant, stronger than deadlock freedom), and Completion under weak   *)
(* fairness.  ReleaseBeforeNil / DoubleRelease are counter-models of       *)
(* CompressingResponseWriter.Close.                                        *)
(***************************************************************************)
EXTENDS Integers, Sequences, FiniteSets, TLC

CONSTANTS N, K, Rounds, AtomicRelease, SyncPool, SecondCloseReleases

Procs == 1..N
VARIABLES ch, bag, held, pc, round, nextObj, closed, relCount
vars == <<ch, bag, held, pc, round, nextObj, closed, relCount>>

Init == /\ ch = [i \in 1..K |-> i]            \* NewBoundedCachedCompressors fills the cache
        /\ bag = {}
        /\ held = [p \in Procs |-> 0] /\ pc = [p \in Procs |-> "idle"] /\ round = [p \in Procs |-> 0]
        /\ nextObj = K + 1 /\ closed = [p \in Procs |-> FALSE]
        /\ relCount = [o \in {} |-> 0]

\* AcquireGzipWriter: non-blocking receive, or a new unmanaged object
Acquire(p) ==
  /\ pc[p] = "idle" /\ round[p] < Rounds
  /\ IF SyncPool
     THEN \/ \E o \in bag : held' = [held EXCEPT ![p] = o] /\ bag' = bag \ {o} /\ UNCHANGED <<ch, nextObj>>
          \/ held' = [held EXCEPT ![p] = nextObj] /\ nextObj' = nextObj + 1 /\ UNCHANGED <<ch, bag>>
     ELSE IF ch # <<>>
          THEN held' = [held EXCEPT ![p] = Head(ch)] /\ ch' = Tail(ch) /\ UNCHANGED <<bag, nextObj>>
          ELSE held' = [held EXCEPT ![p] = nextObj] /\ nextObj' = nextObj + 1 /\ UNCHANGED <<ch, bag>>
  /\ pc' = [pc EXCEPT ![p] = "holding"] /\ closed' = [closed EXCEPT ![p] = FALSE]
  /\ UNCHANGED <<round, relCount>>

Count(o) == IF o \in DOMAIN relCount THEN relCount[o] ELSE 0
Released(o) == relCount' = [x \in DOMAIN relCount \cup {o} |-> IF x = o THEN Count(o) + 1 ELSE relCount[x]]

\* CompressingResponseWriter.Close: compressor.Close(), release by coding, nil the field
Close(p) ==
  /\ pc[p] = "holding"
  /\ IF SyncPool
     THEN /\ \/ bag' = bag \cup {held[p]} \/ bag' = bag     \* sync.Pool may drop
          /\ pc' = [pc EXCEPT ![p] = "released"] /\ Released(held[p]) /\ UNCHANGED ch
     ELSE IF AtomicRelease
          THEN /\ ch' = IF Len(ch) < K THEN Append(ch, held[p]) ELSE ch
               /\ pc' = [pc EXCEPT ![p] = "released"] /\ Released(held[p]) /\ UNCHANGED bag
          ELSE \* legacy: the capacity check ...
               /\ pc' = [pc EXCEPT ![p] = IF Len(ch) < K THEN "send" ELSE "released"]
               /\ (IF Len(ch) < K THEN UNCHANGED relCount ELSE Released(held[p]))
               /\ UNCHANGED <<ch, bag>>
  /\ UNCHANGED <<held, round, nextObj, closed>>
\* ... and then the channel send, which blocks while the channel is full
Send(p) ==
  /\ pc[p] = "send" /\ Len(ch) < K
  /\ ch' = Append(ch, held[p]) /\ pc' = [pc EXCEPT ![p] = "released"] /\ Released(held[p])
  /\ UNCHANGED <<bag, held, round, nextObj, closed>>
\* c.compressor = nil
NilField(p) ==
  /\ pc[p] = "released"
  /\ held' = [held EXCEPT ![p] = 0] /\ closed' = [closed EXCEPT ![p] = TRUE]
  /\ pc' = [pc EXCEPT ![p] = "closedOnce"]
  /\ UNCHANGED <<ch, bag, round, nextObj, relCount>>
\* a second Close: refused with an error, no second release
SecondClose(p) ==
  /\ pc[p] = "closedOnce"
  /\ pc' = [pc EXCEPT ![p] = "idle"] /\ round' = [round EXCEPT ![p] = @ + 1]
  /\ IF SecondCloseReleases /\ ~SyncPool /\ Len(ch) < K
     THEN ch' = Append(ch, nextObj - 1) /\ UNCHANGED <<bag, relCount>>   \* counter-model: releases again
     ELSE UNCHANGED <<ch, bag, relCount>>
  /\ UNCHANGED <<held, nextObj, closed>>

Step(p) == Acquire(p) \/ Close(p) \/ Send(p) \/ NilField(p) \/ SecondClose(p)
Terminated == \A p \in Procs : pc[p] = "idle" /\ round[p] = Rounds
Next == (\E p \in Procs : Step(p)) \/ (Terminated /\ UNCHANGED vars)
Spec == Init /\ [][Next]_vars
FairSpec == Spec /\ \A p \in Procs : WF_vars(Step(p))

InUse(p) == pc[p] \in {"holding", "send"}   \* after the release the field is only nil-ed, not used
\* an object is held by at most one process and is not in the cache at the same time
Exclusive ==
  /\ \A p, q \in Procs : p # q /\ InUse(p) /\ InUse(q) => held[p] # held[q]
  /\ \A p \in Procs : pc[p] = "holding" => \A i \in 1..Len(ch) : ch[i] # held[p]
  /\ \A i, j \in 1..Len(ch) : i # j => ch[i] # ch[j]
\* acquiring and releasing never blocks, whatever the capacity and the interleaving
NeverBlocks == \A p \in Procs : pc[p] = "send" => Len(ch) < K
CacheBounded == Len(ch) <= K
Completion == <>Terminated
=============================================================================

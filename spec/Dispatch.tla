------------------------------ MODULE Dispatch ------------------------------
(***************************************************************************)
(* Layer A for the per-request control flow of a Container (C06, C07, C10):*)
(* a MONITOR over the events one request produces.  The Go harness logs    *)
(* these events from generated filters / handlers / recover handler /      *)
(* instrumented compressor provider; MC_Dispatch produces them from an     *)
(* implementation-shaped model of Container.dispatch.  Both are judged by  *)
(* the same Step function.                                                 *)
(*                                                                         *)
(* Filters are numbered 1..N in the order container, service, route.       *)
(* Events (records, uniform fields [k, f, rq, rs, at]):                    *)
(*   enter f   filter f was invoked; rq/rs = identity of the pair received,*)
(*             at = attributes visible                                     *)
(*   pass f    filter f calls ProcessFilter handing on pair rq/rs; who = the*)
(*             value it stored in the attribute every filter overwrites    *)
(*             (0: it stored none); enter / target report the value seen   *)
(*   ret f     that call returned normally                                 *)
(*   exit f    filter f returned normally                                  *)
(*   target    route function / service-error writer / plain handler ran   *)
(*   panic     a panic was raised (f = raising filter, 0 = target)         *)
(*   recover   the recover handler was called                              *)
(*   acq, rel  a compressor (id in f) was acquired / released              *)
(*   use       a compressor (id in f) was written to after its release     *)
(*   end       the entry point returned or panicked (f = 1 if it panicked) *)
(***************************************************************************)
EXTENDS Strings, SequencesExt

\* what the monitor needs to know about the request: n = number of filters that may run (all
\* three levels for a routed request, container filters only otherwise), recoverOn
MonInit(n, recoverOn, rq0, rs0) ==
  [ok |-> TRUE, why |-> "", n |-> n, rec |-> recoverOn, next |-> 1, stack |-> <<>>, passing |-> {},
   passed |-> {}, target |-> FALSE, panicked |-> FALSE, recovered |-> 0, held |-> {}, released |-> {},
   acquired |-> 0, rq |-> rq0, rs |-> rs0, attrs |-> {}, who |-> 0, done |-> FALSE]

Bad(m, why) == [m EXCEPT !.ok = FALSE, !.why = IF m.why = "" THEN why ELSE m.why]
Top(s) == s[Len(s)]
Pop(s) == SubSeq(s, 1, Len(s) - 1)

\* e.at: set of attribute names the callee sees; filter f sets attribute f before passing
Step(m, e) ==
  IF ~m.ok THEN m
  ELSE IF m.done THEN Bad(m, "C06.afterend")
  ELSE CASE e.k = "enter" ->
         IF m.panicked THEN Bad(m, "C10.afterpanic")
         ELSE IF e.f # m.next THEN Bad(m, IF e.f < m.next THEN "C06.once" ELSE "C06.order")
         ELSE IF e.f > m.n THEN Bad(m, "C06.level")
         ELSE IF e.f > 1 /\ (e.f - 1) \notin m.passing THEN Bad(m, "C06.stop")
         ELSE IF m.target THEN Bad(m, "C06.order")
         ELSE IF e.rq # m.rq \/ e.rs # m.rs THEN Bad(m, "C06.pair")
         ELSE IF ~(m.attrs \subseteq e.at) THEN Bad(m, "C06.attrs")
         \* the attribute every passing filter overwrites ("who") holds the last value passed on
         ELSE IF e.who # m.who THEN Bad(m, "C06.attrs")
         ELSE [m EXCEPT !.next = @ + 1, !.stack = Append(@, e.f)]
    [] e.k = "pass" ->
         IF m.panicked THEN Bad(m, "C10.afterpanic")
         ELSE IF m.stack = <<>> \/ Top(m.stack) # e.f \/ e.f \in m.passed THEN Bad(m, "C06.harness")
         ELSE [m EXCEPT !.passing = @ \cup {e.f}, !.passed = @ \cup {e.f}, !.rq = e.rq, !.rs = e.rs,
                        !.attrs = @ \cup {e.f}, !.who = IF e.who # 0 THEN e.who ELSE @]
    [] e.k = "target" ->
         IF m.panicked THEN Bad(m, "C10.afterpanic")
         ELSE IF m.target THEN Bad(m, "C06.targetonce")
         ELSE IF m.next # m.n + 1 THEN Bad(m, "C06.targetearly")
         ELSE IF m.n > 0 /\ m.n \notin m.passing THEN Bad(m, "C06.stop")
         \* (a plain http.Handler target cannot see the pair: logged as 0)
         ELSE IF e.rq # 0 /\ (e.rq # m.rq \/ e.rs # m.rs) THEN Bad(m, "C06.pair")
         ELSE IF e.rq # 0 /\ ~(m.attrs \subseteq e.at) THEN Bad(m, "C06.attrs")
         ELSE IF e.rq # 0 /\ e.who # m.who THEN Bad(m, "C06.attrs")
         ELSE [m EXCEPT !.target = TRUE]
    [] e.k = "ret" ->
         IF e.f \notin m.passing \/ m.stack = <<>> \/ Top(m.stack) # e.f THEN Bad(m, "C06.nesting")
         \* passing control on must have reached the next filter or the target
         ELSE IF (e.f = m.n /\ ~m.target) \/ (e.f < m.n /\ m.next <= e.f + 1) THEN Bad(m, "C06.lost")
         ELSE [m EXCEPT !.passing = @ \ {e.f}]
    [] e.k = "exit" ->
         IF m.stack = <<>> \/ Top(m.stack) # e.f \/ e.f \in m.passing THEN Bad(m, "C06.nesting")
         ELSE [m EXCEPT !.stack = Pop(@)]
    [] e.k = "panic" ->
         IF m.panicked THEN Bad(m, "C06.harness") ELSE [m EXCEPT !.panicked = TRUE]
    [] e.k = "recover" ->
         IF ~m.panicked THEN Bad(m, "C10.spurious")
         ELSE IF ~m.rec THEN Bad(m, "C10.norecover")
         ELSE IF m.recovered > 0 THEN Bad(m, "C10.once")
         ELSE [m EXCEPT !.recovered = 1]
    [] e.k = "acq" ->
         IF e.f \in m.held THEN Bad(m, "C13.exclusive")
         ELSE IF m.acquired > 0 THEN Bad(m, "C07.once")
         ELSE [m EXCEPT !.held = @ \cup {e.f}, !.acquired = @ + 1]
    [] e.k = "rel" ->
         IF e.f \notin m.held THEN Bad(m, "C13.releasedonce")
         ELSE [m EXCEPT !.held = @ \ {e.f}, !.released = @ \cup {e.f}]
    \* decompressors of request bodies (Request.ReadEntity): any number, each released exactly once, none left at the end
    [] e.k = "racq" ->
         IF e.f \in m.held THEN Bad(m, "C13.exclusive") ELSE [m EXCEPT !.held = @ \cup {e.f}]
    [] e.k = "rrel" ->
         IF e.f \notin m.held THEN Bad(m, "C13.releasedonce") ELSE [m EXCEPT !.held = @ \ {e.f}]
    [] e.k = "use" -> Bad(m, "C13.useafterrelease")
    [] e.k = "end" ->
         \* e.f = 1: the panic escaped the entry point
         IF m.held # {} THEN Bad(m, "C10.leak")
         ELSE IF m.panicked /\ m.rec /\ m.recovered # 1 THEN Bad(m, "C10.recoveronce")
         ELSE IF m.panicked /\ m.rec /\ e.f = 1 THEN Bad(m, "C10.escaped")
         ELSE IF m.panicked /\ ~m.rec /\ e.f # 1 THEN Bad(m, "C10.swallowed")
         ELSE IF ~m.panicked /\ e.f = 1 THEN Bad(m, "C10.spurious")
         ELSE IF ~m.panicked /\ (m.stack # <<>> \/ m.passing # {}) THEN Bad(m, "C06.nesting")
         \* exactly once, after all of them, iff every filter passed control on
         ELSE IF ~m.panicked /\ (m.target # (m.passed = 1..m.n)) THEN Bad(m, "C06.iff")
         ELSE [m EXCEPT !.done = TRUE]
    [] OTHER -> Bad(m, "C06.harness")

RECURSIVE RunMon(_, _, _)
RunMon(m, evs, i) == IF i > Len(evs) THEN m ELSE RunMon(Step(m, evs[i]), evs, i + 1)

Ev(k, f, rq, rs, at) == [k |-> k, f |-> f, rq |-> rq, rs |-> rs, at |-> at, who |-> 0]
EvW(k, f, rq, rs, at, who) == [k |-> k, f |-> f, rq |-> rq, rs |-> rs, at |-> at, who |-> who]

\* ---------- C07: the coding decision (pure) ----------
\* obs: [entry, cEnc, rEnc ("unset"|"on"|"off"), routed, ae (Accept-Encoding), preCE, ce (response
\*       Content-Encoding), acq, rel, decodeOK, decodedEq, bodyEq]
Applied(o) == o.ce \in {"gzip", "deflate"} /\ o.preCE = ""
Enabled(o) == IF o.routed /\ o.rEnc # "unset" THEN o.rEnc = "on" ELSE o.cEnc
C07Label(o)   == o.acq > 0 <=> Applied(o)
C07Mention(o) == Applied(o) => StrContains(o.ae, o.ce)
C07Enabled(o) == Applied(o) => Enabled(o)
C07Pre(o)     == o.preCE # "" => o.acq = 0 /\ o.ce = o.preCE /\ o.bodyEq
C07Once(o)    == o.acq <= 1 /\ o.rel = o.acq
C07Payload(o) == IF Applied(o) THEN o.decodeOK /\ o.decodedEq ELSE o.bodyEq
C07None(o)    == ~Applied(o) /\ o.preCE = "" => o.ce = ""
=============================================================================

----------------------------- MODULE MC_Builder -----------------------------
(***************************************************************************)
(* Exhaustive exploration of Builder (declaration history) for every       *)
(* sequence of at most MaxOps API calls on one WebService and two          *)
(* RouteBuilders.  Invariants: Refines (Layer B only ever registers what   *)
(* Layer A allows), OwnDeclarationWins; action property RoutesImmutable.   *)
(* Every distinct state reached by a Route() call is exported with the     *)
(* call sequence that led to it (one implementation test per state); the   *)
(* history variable is hidden from the state space by the VIEW.            *)
(***************************************************************************)
EXTENDS Builder, TLC, Json

CONSTANTS MaxOps, LazyDefaults, DefaultsAppend

Bids == {1, 2}
Lists == {<<>>, <<J>>, <<X>>}
Roots == {"/a", "/{w}"}

VARIABLES S, hist
vars == <<S, hist>>
View == <<S, Len(hist)>>

Ops ==
  [op : {"wsProduces", "wsConsumes"}, b : {0}, m : {""}, v : Lists]
  \cup [op : {"wsPath"}, b : {0}, m : {""}, v : {<<r>> : r \in Roots}]
  \cup [op : {"new"}, b : Bids, m : {"GET", "POST"}, v : {<<PathNo(S.made + 1)>>}]
  \cup [op : {"bPath"}, b : Bids, m : {""}, v : {<<PathNo(S.made + 1)>>}]
  \cup [op : {"bProduces", "bConsumes"}, b : Bids, m : {""}, v : Lists]
  \cup [op : {"bFilter", "route"}, b : Bids, m : {""}, v : {<<>>}]
  \cup [op : {"wsFilter", "cadd"}, b : {0}, m : {""}, v : {<<>>}]
  \cup [op : {"rm"}, b : 1..Len(S.routes), m : {""}, v : {<<>>}]

Init == S = InitState(Bids) /\ hist = <<>>
Next == /\ Len(hist) < MaxOps
        /\ \E o \in Ops :
             /\ Enabled(S, o)
             /\ o.op = "new" /\ o.b = 2 => S.bs[1].live          \* symmetry: builder 1 is made first
             /\ S' = Step(S, o, DefaultsAppend)
             /\ hist' = Append(hist, o)
Spec == Init /\ [][Next]_vars

Refines == S.ok
OwnDeclarationWins ==
  \A b \in Bids : S.bs[b].live /\ S.bs[b].ownP # <<>> /\ CanRegister(S, b)
                    => Step(S, [op |-> "route", b |-> b, m |-> "", v |-> <<>>], DefaultsAppend).routes[Len(S.routes) + 1].prod
                         = S.bs[b].ownP
\* registered routes only ever change by RemoveRoute
RoutesImmutable ==
  [][Len(S'.routes) >= Len(S.routes) =>
       \A i \in 1..Len(S.routes) : Visible(S', LazyDefaults)[i] = Visible(S, LazyDefaults)[i]]_vars

Export ==
  (hist # <<>> /\ hist[Len(hist)].op \in {"route", "rm"} /\ S.routes # <<>>)
     => PrintT("CASE " \o ToJson([ops |-> hist, n |-> Len(S.routes)]))
=============================================================================

-------------------------------- MODULE Cors --------------------------------
(***************************************************************************)
(* CORS filter (cors_filter.go), properties C08 and C09.                   *)
(* Layer A: what a response to a request may carry, given the filter's     *)
(* configuration (OriginAllowed, preflight grant, actual-request headers). *)
(* Layer B: the filter as the code computes it, including the value        *)
(* receiver that keeps computed methods on a per-request copy              *)
(* (PointerReceiver = TRUE is the counter-model).                          *)
(***************************************************************************)
EXTENDS Strings, SequencesExt

\* cfg: [domains : Seq(STRING), pred : {"none","suffix","never","always"}, methods : Seq(STRING),
\*       headers : Seq(STRING), expose : Seq(STRING), cookies : BOOLEAN, maxAge : Nat]
\* req: [m, origin, acrm, acrh, url]
PredAccepts(pred, origin) ==
  CASE pred = "suffix" -> HasSuffix(ToLower(origin), ".example.com")
    [] pred = "always" -> TRUE
    [] pred = "exactlc" -> origin = "https://shop.example.com"      \* case-sensitive
    [] OTHER           -> FALSE

OriginAllowed(cfg, origin) ==
  /\ origin # ""
  /\ \/ cfg.domains = <<>> /\ cfg.pred = "none"
     \/ \E i \in 1..Len(cfg.domains) : cfg.domains[i] = ".*" \/ EqFold(cfg.domains[i], origin)
     \/ cfg.pred # "none" /\ PredAccepts(cfg.pred, origin)

RequestedHeaders(acrh) ==
  IF acrh = "" THEN <<>> ELSE [i \in 1..Len(SplitOn(acrh, ",")) |-> Trim(SplitOn(acrh, ",")[i], " ")]
HeaderAllowed(cfg, h) ==
  \E i \in 1..Len(cfg.headers) : cfg.headers[i] = "*" \/ EqFold(cfg.headers[i], h)

\* a second Access-Control-Request-Headers field line (optional field of logged requests).  Whether "the requested
\* headers" are those of the first line or of all lines is left open: refusal is demanded for the first line,
\* and nothing may be granted that is not allowed (C09Headers)
Acrh2(req) == IF "acrh2" \in DOMAIN req THEN req.acrh2 ELSE ""
IsPreflight(cfg, req) == req.m = "OPTIONS" /\ OriginAllowed(cfg, req.origin) /\ req.acrm # ""
AllowedMethods(cfg, routable) == IF cfg.methods # <<>> THEN SeqToSet(cfg.methods) ELSE routable
PreflightGranted(cfg, req, routable) ==
  /\ req.acrm \in AllowedMethods(cfg, routable)
  /\ \A i \in 1..Len(RequestedHeaders(req.acrh)) : HeaderAllowed(cfg, RequestedHeaders(req.acrh)[i])

\* response model: ac = function from Access-Control-* header name to its sequence of values
AO == "Access-Control-Allow-Origin"
AC == "Access-Control-Allow-Credentials"
AM == "Access-Control-Allow-Methods"
AH == "Access-Control-Allow-Headers"
AE == "Access-Control-Expose-Headers"
AX == "Access-Control-Max-Age"

Has(ac, h) == h \in DOMAIN ac
NoGrant(ac) == DOMAIN ac = {}
MethodList(v) == {Trim(SplitOn(v, ",")[i], " ") : i \in 1..Len(SplitOn(v, ","))} \ {""}

\* ---------- Layer A: clauses; each returns TRUE when the observation is allowed ----------
\* resp: [ac, ran, later, proj]   twin: projection of the filter-less twin's response
C08NoGrant(cfg, req, resp, twinProj) ==
  ~OriginAllowed(cfg, req.origin) => NoGrant(resp.ac) /\ resp.proj = twinProj
C08Echo(cfg, req, resp) ==
  ~NoGrant(resp.ac) => Has(resp.ac, AO) /\ resp.ac[AO] = <<req.origin>>
C08Cred(cfg, req, resp) ==
  Has(resp.ac, AC) => cfg.cookies /\ OriginAllowed(cfg, req.origin) /\ resp.ac[AC] = <<"true">>

C09Alone(cfg, req, resp) ==
  IsPreflight(cfg, req) => resp.ran = 0 /\ resp.later = 0
C09Refuse(cfg, req, resp, routable) ==
  IsPreflight(cfg, req) /\ ~PreflightGranted(cfg, req, routable) => NoGrant(resp.ac)
C09Grant(cfg, req, resp, routable) ==
  IsPreflight(cfg, req) /\ PreflightGranted(cfg, req, routable) /\ ~NoGrant(resp.ac) =>
     /\ Has(resp.ac, AM) /\ Len(resp.ac[AM]) = 1 /\ MethodList(resp.ac[AM][1]) \subseteq AllowedMethods(cfg, routable)
     /\ req.acrm \in MethodList(resp.ac[AM][1])
     /\ Has(resp.ac, AH) /\ (Acrh2(req) = "" => resp.ac[AH] = <<req.acrh>>)
\* whatever the request named (in one field line or several): every header name the response grants is allowed
C09Headers(cfg, resp) ==
  Has(resp.ac, AH) => \A i \in 1..Len(resp.ac[AH]) : \A h \in MethodList(resp.ac[AH][i]) : HeaderAllowed(cfg, h)
C09Actual(cfg, req, resp, twinProj) ==
  OriginAllowed(cfg, req.origin) /\ ~IsPreflight(cfg, req) =>
     /\ resp.proj = twinProj                                   \* proceeds down the chain untouched
     /\ Has(resp.ac, AO) /\ resp.ac[AO] = <<req.origin>>
     /\ Has(resp.ac, AC) <=> cfg.cookies
     /\ Has(resp.ac, AE) <=> cfg.expose # <<>>
     /\ Has(resp.ac, AE) => resp.ac[AE] = <<JoinWith(cfg.expose, ",")>>
     /\ Has(resp.ac, AX) <=> cfg.maxAge > 0
     /\ Has(resp.ac, AX) => Len(resp.ac[AX]) = 1
     /\ ~Has(resp.ac, AM) /\ ~Has(resp.ac, AH)

\* ---------- Layer B: cors_filter.go ----------
CONSTANT PointerReceiver
\* EchoAllLines = TRUE is a counter-model: the requested headers are validated on the first field line (Header.Get)
\* but Allow-Headers echoes every line
CONSTANT EchoAllLines

ImplOriginAllowed(cfg, origin) ==   \* cors_filter.go:131
  IF origin = "" THEN FALSE
  ELSE IF cfg.domains = <<>> THEN (IF cfg.pred # "none" THEN PredAccepts(cfg.pred, ToLower(origin)) ELSE TRUE)
  ELSE \/ \E i \in 1..Len(cfg.domains) : cfg.domains[i] = ".*" \/ ToLower(cfg.domains[i]) = ToLower(origin)
       \/ cfg.pred # "none" /\ PredAccepts(cfg.pred, origin)

Fn(pairs) == [h \in {p[1] : p \in pairs} |-> (CHOOSE p \in pairs : p[1] = h)[2]]
ImplOptionsHeaders(cfg, req) ==      \* setOptionsHeaders
  (IF cfg.expose # <<>> THEN {<<AE, <<JoinWith(cfg.expose, ",")>> >>} ELSE {})
  \cup (IF ImplOriginAllowed(cfg, req.origin) THEN {<<AO, <<req.origin>> >>} ELSE {})
  \cup (IF cfg.cookies THEN {<<AC, <<"true">> >>} ELSE {})
  \cup (IF cfg.maxAge > 0 THEN {<<AX, <<ToString(cfg.maxAge)>> >>} ELSE {})

\* stored: the AllowedMethods the filter object holds when the request arrives
\* result: [ac, pass (TRUE = chain.ProcessFilter called), stored (what it holds afterwards)]
ImplFilter(cfg, stored, req, routableSeq) ==
  IF req.origin = "" \/ ~ImplOriginAllowed(cfg, req.origin)
  THEN [ac |-> Fn({}), pass |-> TRUE, stored |-> stored]
  ELSE IF req.m # "OPTIONS" \/ req.acrm = ""
  THEN [ac |-> Fn(ImplOptionsHeaders(cfg, req)), pass |-> TRUE, stored |-> stored]
  ELSE LET methods == IF stored = <<>> THEN routableSeq ELSE stored
           after   == IF PointerReceiver THEN methods ELSE stored
           okM     == req.acrm \in SeqToSet(methods)
           okH     == \A i \in 1..Len(RequestedHeaders(req.acrh)) :
                         \E j \in 1..Len(cfg.headers) :
                            ToLower(cfg.headers[j]) = ToLower(RequestedHeaders(req.acrh)[i]) \/ cfg.headers[j] = "*"
       IN IF okM /\ okH
          THEN [ac |-> Fn({<<AM, <<JoinWith(methods, ",")>> >>,
                           <<AH, <<IF EchoAllLines /\ Acrh2(req) # "" THEN req.acrh \o ", " \o Acrh2(req) ELSE req.acrh>> >>}
                          \cup ImplOptionsHeaders(cfg, req)),
                pass |-> FALSE, stored |-> after]
          ELSE [ac |-> Fn({}), pass |-> FALSE, stored |-> after]
=============================================================================

---------------------------- MODULE MC_Response ----------------------------
(***************************************************************************)
(* C15: status / length bookkeeping of Response over a possibly failing    *)
(* underlying writer.  State: what Response reports (st, cl), what the     *)
(* underlying writer really got (uStatus, uBytes) and how many more bytes  *)
(* it accepts (budget; it fails from that byte on, accepting a prefix).    *)
(* Every public writing call is decomposed into the WriteHeader / Write    *)
(* calls it makes on the underlying writer (response.go, entity_accessors  *)
(* .go: writeJSON / writeXML pretty and not, WriteErrorString, nil entity, *)
(* the 406 branch).  Call sequences obey the property's precondition:      *)
(* the status is set at most once and before any body byte.                *)
(* Laws (invariants after every call): StatusLaw, LengthLaw, ErrorLaw.     *)
(* Counter-models: CountsRequested (adds the requested instead of the      *)
(* accepted byte count), SwallowsError (a failing Write is not reported),  *)
(* ForgetsStatus (WriteErrorString does not record the status).            *)
(***************************************************************************)
EXTENDS Integers, Sequences, FiniteSets, TLC, Json

CONSTANTS MaxCalls, MaxBudget, CountsRequested, SwallowsError, ForgetsStatus

\* call kinds: <<name, status, chunk sizes written to the underlying writer>>
\* sizes: entity 3 bytes (pretty XML: header 2 + body 3), message 2 bytes, nil entity: none
Calls ==
  { <<"Write", 0, <<1>>>>, <<"Write", 0, <<3>>>>, <<"Write", 0, <<0>>>>,
    <<"WriteHeader", 201, <<>>>>,
    <<"WriteEntity", 200, <<3>>>>, <<"WriteHeaderAndEntity", 202, <<3>>>>, <<"WriteEntityNil", 200, <<>>>>,
    <<"WriteAsXmlPretty", 200, <<2, 3>>>>, <<"WriteAsJson", 200, <<3>>>>,
    <<"WriteEntity406", 406, <<>>>>,
    <<"WriteErrorString", 404, <<2>>>>, <<"WriteError", 500, <<2>>>>, <<"WriteErrorNil", 410, <<0>>>>,
    <<"WriteServiceError", 409, <<3>>>> }
SetsStatus(c) == c[1] # "Write"

VARIABLES st, cl, uStatus, uBytes, budget, statusSet, body, lastErr, expectErr, hist
vars == <<st, cl, uStatus, uBytes, budget, statusSet, body, lastErr, expectErr, hist>>

Init == /\ st = 200 /\ cl = 0 /\ uStatus = 0 /\ uBytes = 0 /\ budget \in 0..MaxBudget
        /\ statusSet = FALSE /\ body = FALSE /\ lastErr = FALSE /\ expectErr = FALSE /\ hist = <<>>

\* writing the chunks one after the other; stops at the first failing Write (the code returns)
\* acc: [cl, uBytes, budget, err, stop]
RECURSIVE WriteChunks(_, _, _)
WriteChunks(chunks, i, acc) ==
  IF i > Len(chunks) \/ acc.stop THEN acc
  ELSE LET n == chunks[i]
           a == IF n <= acc.budget THEN n ELSE acc.budget
           failed == a < n
       IN WriteChunks(chunks, i + 1,
            [cl |-> acc.cl + (IF CountsRequested THEN n ELSE a), uBytes |-> acc.uBytes + a,
             budget |-> acc.budget - a, err |-> acc.err \/ (failed /\ ~SwallowsError),
             truth |-> acc.truth \/ failed, stop |-> failed])

Do(c) ==
  /\ Len(hist) < MaxCalls
  /\ SetsStatus(c) => ~statusSet /\ ~body          \* the property's precondition
  /\ LET r == WriteChunks(c[3], 1, [cl |-> cl, uBytes |-> uBytes, budget |-> budget, err |-> FALSE, truth |-> FALSE, stop |-> FALSE])
     IN /\ st' = IF SetsStatus(c) /\ ~(ForgetsStatus /\ c[1] = "WriteErrorString") THEN c[2] ELSE st
        /\ uStatus' = IF SetsStatus(c) THEN c[2] ELSE uStatus
        /\ statusSet' = (statusSet \/ SetsStatus(c))
        /\ body' = (body \/ c[3] # <<>>)
        /\ cl' = r.cl /\ uBytes' = r.uBytes /\ budget' = r.budget
        /\ lastErr' = r.err /\ expectErr' = r.truth
        /\ hist' = Append(hist, c)
Next == \E c \in Calls : Do(c)
Spec == Init /\ [][Next]_vars

StatusLaw == st = IF uStatus = 0 THEN 200 ELSE uStatus
LengthLaw == cl = uBytes
ErrorLaw  == lastErr = expectErr
Export == Len(hist) = MaxCalls => PrintT("CASE " \o ToJson([calls |-> [i \in 1..Len(hist) |-> hist[i][1] \o ":" \o ToString(hist[i][3])], n |-> Len(hist)]))
=============================================================================

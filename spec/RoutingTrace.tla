--------------------------- MODULE RoutingTrace ---------------------------
(***************************************************************************)
(* Trace validation for the routing family.  The Go harness runs the REAL  *)
(* routers on real containers and logs, per request, every distinct        *)
(* observed outcome with the container variants (router, registration      *)
(* order, trailing-slash twin, entry point) that produced it.  This spec   *)
(* is a total monitor: every observation is judged by Layer A (Routing);   *)
(* an illegal one prints a MISMATCH line and the trace is still consumed   *)
(* to its end.  Counters (TLC registers) measure how often each property's *)
(* antecedent was actually exercised.                                      *)
(***************************************************************************)
EXTENDS Routing, Json, IOUtils, TLC

Trace == ndJsonDeserialize(IOEnv.TRACE_FILE)

VARIABLES l, T, O
vars == <<l, T, O>>

\* Container.ServeHTTP = net/http.ServeMux in front of dispatch.  The mux of a container is the one a fresh
\* container with the same WebServices in the same order has (Registry.tla, Layer B of C11).
Reg == INSTANCE Registry WITH LegacyRemoveScan <- FALSE, LegacyRootCompare <- FALSE, HandlersSurviveRemove <- TRUE
CleanPath(p) == /\ ~StrContains(p, "//")
                /\ \A s \in SeqToSet(SplitOn(p, "/")) : s \notin {".", ".."}
\* a 301 of the ServeMux is net/http behaviour (and not judged) when the documented pattern scheme
\* predicts it: the path is not clean, or only path+"/" is a registered pattern
RedirectPredicted(path, perm) ==
  \/ ~CleanPath(path)
  \/ perm + 1 > Len(O)
  \/ LET ord == O[perm + 1]
         roots == [i \in 1..Len(ord) |-> T[ord[i]].root]
     IN Reg!MuxLookup(Reg!FreshMux([services |-> roots, handlers |-> <<>>]), path) = <<"redirect">>

Mis(line, clause, oi, v) ==
  PrintT("MISMATCH " \o ToJson([line |-> line, clause |-> clause, out |-> oi, variant |-> v]))
Bump(k) == TLCSet(k, TLCGet(k) + 1)
\* registers: 1 last line, 2 judged observations, 3 C03 dominance situations, 4 route outcomes
\* binding >= 1 parameter, 5 C14 twins compared, 6 C18 twins compared, 7 C03 order groups compared,
\* 8 C17 probes
RegNames == <<"line", "judged", "dominance", "params", "slashTwins", "routerTwins", "orderGroups", "probes">>

ReqOf(ev, slash) == IF slash = 1 THEN [ev.req EXCEPT !.path = @ \o "/"] ELSE ev.req

\* variants: <<router, perm, slash, entry>>
Judged(o) == o.k \in {"route", "err", "panic"}

\* a more specific competitor existed and was (rightly) not needed, or was beaten
DominanceSituation(c, o) ==
  /\ o.k = "route" /\ o.ws \in c.best
  /\ LET F == c.F[o.ws]
         A == {r \in DOMAIN F : F[r].pm = 2 /\ F[r].cond /\ F[r].meth /\ F[r].ct /\ F[r].am = 2}
     IN \/ Cardinality(A) >= 2
        \/ Cardinality({w \in 1..Len(T) : ServiceClaim(T[w], c.rt, c.canon) = 2}) >= 2

CheckOut(line, ev, oi) ==
  LET o == ev.outs[oi]
      keys == {<<o.vs[i][1], o.vs[i][3]>> : i \in 1..Len(o.vs)}
  IN \A key \in keys :
       LET rq == ReqOf(ev, key[2])
           v  == CHOOSE i \in 1..Len(o.vs) : o.vs[i][1] = key[1] /\ o.vs[i][3] = key[2]
           c  == Ctx(key[1], T, rq)
       IN /\ Bump(2)
          /\ IF LegalC(T, rq, c, o) THEN TRUE
             ELSE Mis(line, Diagnose(key[1], T, rq, o), oi, o.vs[v])
          /\ IF SelectedOK(T, o) THEN TRUE ELSE Mis(line, "C01.selected", oi, o.vs[v])
          /\ IF OnceOK(o) THEN TRUE ELSE Mis(line, "C02.once", oi, o.vs[v])
          /\ IF DominanceSituation(c, o) THEN Bump(3) ELSE TRUE
          /\ IF o.k = "route" /\ Len(o.params) > 0 THEN Bump(4) ELSE TRUE

\* relational clauses between two different observed outcomes of one request
CheckPair(line, ev, oi, oj) ==
  LET a == ev.outs[oi]   b == ev.outs[oj] IN
  \A i \in 1..Len(a.vs) : \A j \in 1..Len(b.vs) :
    LET x == a.vs[i]   y == b.vs[j] IN
    /\ IF x[1] = y[1] /\ x[3] = y[3] /\ x[4] = y[4] /\ x[2] # y[2] /\ OrderQualifies(x[1], T)
       THEN Mis(line, "C03.order", oi, <<x, y>>) ELSE TRUE
    /\ IF x[1] = y[1] /\ x[2] = y[2] /\ x[4] = y[4] /\ x[3] # y[3] /\ SlashQualifies(x[1], T, ev.req)
       THEN Mis(line, "C14.pair", oi, <<x, y>>) ELSE TRUE
    /\ IF x[1] # y[1] /\ x[2] = y[2] /\ x[3] = y[3] /\ x[4] = y[4] /\ AgreeQualifies(T, ReqOf(ev, x[3]))
       THEN Mis(line, "C18.agree", oi, <<x, y>>) ELSE TRUE

AllVariants(ev) == UNION {{ev.outs[i].vs[j] : j \in 1..Len(ev.outs[i].vs)} :
                            i \in {k \in 1..Len(ev.outs) : Judged(ev.outs[k])}}
CountRelational(ev) ==
  LET V == AllVariants(ev) IN
  /\ IF \E x, y \in V : x[1] = y[1] /\ x[2] = y[2] /\ x[4] = y[4] /\ x[3] # y[3]
                        /\ SlashQualifies(x[1], T, ev.req) THEN Bump(5) ELSE TRUE
  /\ IF \E x, y \in V : x[1] # y[1] /\ x[2] = y[2] /\ x[3] = y[3] /\ x[4] = y[4]
                        /\ AgreeQualifies(T, ReqOf(ev, x[3])) THEN Bump(6) ELSE TRUE
  /\ IF \E x, y \in V : x[1] = y[1] /\ x[3] = y[3] /\ x[4] = y[4] /\ x[2] # y[2]
                        /\ OrderQualifies(x[1], T) THEN Bump(7) ELSE TRUE

\* requests outside the specification's string projection (arbitrary bytes, 64 KiB paths): C02's
\* totality only - no panic, at most one invocation, one of the five outcome kinds
CheckOpaque(line, ev) ==
  \A oi \in 1..Len(ev.outs) :
     LET o == ev.outs[oi] IN
     /\ Bump(2)
     /\ IF o.k = "panic" THEN Mis(line, "C02.total", oi, o.vs[1]) ELSE TRUE
     /\ IF o.k = "panic" \/ OnceOK(o) THEN TRUE ELSE Mis(line, "C02.once", oi, o.vs[1])
     /\ IF o.k \in {"panic", "route", "redirect"} \/ o.st \in {404, 405, 406, 415} THEN TRUE
        ELSE Mis(line, "C02.status", oi, o.vs[1])

\* a redirect the pattern scheme does not predict: the request was not dispatched although it should have been
CheckRedirect(line, ev, oi) ==
  LET o == ev.outs[oi] IN
  \A i \in 1..Len(o.vs) :
    LET v == o.vs[i] IN
    IF v[4] = "S" /\ ~RedirectPredicted(ReqOf(ev, v[3]).path, v[2])
    THEN /\ Mis(line, "C02.redirect", oi, v)
         /\ IF OrderQualifies(v[1], T) /\ \E oj \in 1..Len(ev.outs) : oj # oi /\ \E j \in 1..Len(ev.outs[oj].vs) :
                 LET y == ev.outs[oj].vs[j] IN y[1] = v[1] /\ y[3] = v[3] /\ y[4] = v[4] /\ y[2] # v[2]
            THEN Mis(line, "C03.order", oi, <<v, v>>) ELSE TRUE
    ELSE TRUE

\* a condition that panics for this request (user code failing during selection): it has not returned true, so a
\* route that needs it must not run; what the request is answered otherwise (a recovered 500, another route) is
\* not a routing matter - only route outcomes are judged
CondPanics(ev) == "cpanic" \in DOMAIN ev.req /\ ev.req.cpanic # <<>>
CheckReq(line, ev) ==
  LET cp == CondPanics(ev)
      J == {i \in 1..Len(ev.outs) : Judged(ev.outs[i]) /\ (cp => ev.outs[i].k = "route")} IN
  /\ \A oi \in J : CheckOut(line, ev, oi)
  /\ ~cp =>
       /\ \A oi \in {i \in 1..Len(ev.outs) : ev.outs[i].k = "redirect"} : CheckRedirect(line, ev, oi)
       /\ \A oi, oj \in J : (oi < oj /\ Outcome(ev.outs[oi]) # Outcome(ev.outs[oj]))
                               => CheckPair(line, ev, oi, oj)
       /\ CountRelational(ev)

\* ---------- C17: Allow headers vs. what is routable ----------
\* probes: <<method, status (200 = a route ran, -1 = panic), ran>> on a plain container;
\* fprobes: the same on a twin with the OPTIONS filter; opt: the filter's answer to OPTIONS
Routable(ev) == {ev.probes[i][1] : i \in {j \in 1..Len(ev.probes) : ev.probes[j][2] \notin {404, 405}}}
CheckProbe(line, ev) ==
  /\ Bump(8)
  /\ \A i \in 1..Len(ev.allow405) :
       IF SeqToSet(ev.allow405[i][2]) = Routable(ev) THEN TRUE
       ELSE Mis(line, "C17.allow405", i, ev.allow405[i])
  /\ IF SeqToSet(ev.opt.allow) = Routable(ev) THEN TRUE ELSE Mis(line, "C17.options", 1, ev.opt.allow)
  /\ IF SeqToSet(ev.opt.acam) = Routable(ev) THEN TRUE ELSE Mis(line, "C17.options", 2, ev.opt.acam)
  /\ IF SeqToSet(ev.opt.allowAcc) = Routable(ev) THEN TRUE ELSE Mis(line, "C17.options", 3, ev.opt.allowAcc)
  \* behind a CORS filter that passed the (non-preflight) OPTIONS request on
  /\ IF "acamCors" \in DOMAIN ev.opt => SeqToSet(ev.opt.acamCors) = Routable(ev) THEN TRUE
     ELSE Mis(line, "C17.options", 4, ev.opt.acamCors)
  /\ IF ev.opt.ran = 0 /\ ~ev.opt.panic THEN TRUE ELSE Mis(line, "C17.alone", 1, <<ev.opt.ran>>)
  /\ IF ev.fprobes = ev.nprobes THEN TRUE ELSE Mis(line, "C17.alone", 2, ev.fprobes)

\* C14: the OPTIONS filter lists the same methods for p and for p/
CheckSProbe(line, ev) ==
  IF SlashQualifies(ev.router, T, [path |-> ev.path])
  THEN /\ Bump(5)
       /\ IF SeqToSet(ev.allow) = SeqToSet(ev.sallow) /\ SeqToSet(ev.acam) = SeqToSet(ev.sacam) THEN TRUE
          ELSE Mis(line, "C14.options", 1, <<ev.allow, ev.sallow>>)
  ELSE TRUE

Init == l = 1 /\ T = <<>> /\ O = <<>>
Next ==
  /\ l <= Len(Trace)
  /\ l' = l + 1
  /\ LET ev == Trace[l] IN
     /\ T' = IF ev.e = "table" THEN Prepare(ev.services) ELSE T
     /\ O' = IF ev.e = "table" THEN ev.orders ELSE O
     /\ ev.e = "req" => (IF ev.req.opaque THEN CheckOpaque(l, ev) ELSE CheckReq(l, ev))
     /\ ev.e = "probe" => CheckProbe(l, ev)
     /\ ev.e = "sprobe" => CheckSProbe(l, ev)
     /\ TLCSet(1, l)
Spec == Init /\ [][Next]_vars

ASSUME \A k \in 1..8 : TLCSet(k, 0)
AllConsumed ==
  /\ PrintT("COUNTERS " \o ToJson([k \in 2..8 |-> TLCGet(k)]))
  /\ IF TLCGet(1) = Len(Trace) THEN PrintT("CONSUMED " \o ToString(Len(Trace)))
     ELSE PrintT("STOPPED-AT " \o ToString(TLCGet(1)))
=============================================================================

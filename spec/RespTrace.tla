----------------------------- MODULE RespTrace -----------------------------
(***************************************************************************)
(* Trace validation for C15.  A real Response sits on an instrumenting     *)
(* http.ResponseWriter that counts what it receives and fails from the     *)
(* k-th body byte on (accepting a prefix).  After every public call the    *)
(* harness logs what the call returned, what StatusCode() /                *)
(* ContentLength() report and what the underlying writer really got; the   *)
(* laws of MC_Response are evaluated on each of these records.             *)
(***************************************************************************)
EXTENDS Integers, Sequences, FiniteSets, Json, IOUtils, TLC

Trace == ndJsonDeserialize(IOEnv.TRACE_FILE)
VARIABLES l
Mis(line, clause, d) == PrintT("MISMATCH " \o ToJson([line |-> line, clause |-> clause, out |-> 0, variant |-> d]))
Bump(k) == TLCSet(k, TLCGet(k) + 1)
Chk(line, ok, clause, d) == IF ok THEN TRUE ELSE Mis(line, clause, d)
\* registers: 1 line, 2 call returns judged, 3 returns of a call during which the underlying
\* writer failed, 4 call sequences, 5 returns with a content coding underneath

Check(line, ev) ==
  CASE ev.e = "rret" ->
         /\ Bump(2)
         /\ IF ev.failed THEN Bump(3) ELSE TRUE
         /\ IF ev.coding # "" THEN Bump(5) ELSE TRUE
         /\ Chk(line, ev.sc = (IF ev.uStatus = 0 THEN 200 ELSE ev.uStatus), "C15.status", <<ev.name, ev.sc, ev.uStatus>>)
         /\ ev.coding = "" =>
              /\ Chk(line, ev.cl = ev.uBytes, "C15.length", <<ev.name, ev.cl, ev.uBytes>>)
              /\ Chk(line, ev.hasErr => (ev.err = ev.failed), "C15.error", <<ev.name, ev.err, ev.failed>>)
    [] ev.e = "rfin" ->
         \* with a coding underneath: bytes counted before the coding = length of the decoded body
         ev.coding # "" => Chk(line, ev.cl = ev.decodedLen, "C15.length", <<"coded", ev.cl, ev.decodedLen>>)
    [] ev.e = "rcase" -> Bump(4)
    [] OTHER -> TRUE

Init == l = 1
Next == /\ l <= Len(Trace) /\ l' = l + 1 /\ Check(l, Trace[l]) /\ TLCSet(1, l)
Spec == Init /\ [][Next]_l
ASSUME \A k \in 1..5 : TLCSet(k, 0)
AllConsumed ==
  /\ PrintT("COUNTERS " \o ToJson([k \in 2..5 |-> TLCGet(k)]))
  /\ IF TLCGet(1) = Len(Trace) THEN PrintT("CONSUMED " \o ToString(Len(Trace)))
     ELSE PrintT("STOPPED-AT " \o ToString(TLCGet(1)))
=============================================================================

---------------------------- MODULE Negotiation ----------------------------
(***************************************************************************)
(* C05: which representation an entity write may choose.                   *)
(* Layer A: BestSet - the media types the property allows, for every       *)
(* reading it leaves open (type wildcards honoured or not, q=0 excluded or *)
(* ranked last).  Layer B: SortedMimes / EntityWriter / AccessorAt as the  *)
(* code computes them (mime.go, response.go:84, entity_accessors.go:69).   *)
(***************************************************************************)
EXTENDS Mime, SequencesExt

\* ---------- Layer A ----------
\* ranges ranked by q descending, header order on ties (stable)
RankLess(a, b) == a.q > b.q \/ (a.q = b.q /\ a.pos < b.pos)
Ranked(ranges) == SortSeq(ranges, RankLess)

FirstWhere(seq, P(_)) ==
  LET ix == {i \in 1..Len(seq) : P(seq[i])} IN
  IF ix = {} THEN "" ELSE seq[CHOOSE i \in ix : \A j \in ix : i <= j]

\* what one range selects from Produces ("" = nothing)
RangePick(pol, produces, registered, r) ==
  IF r.media = "*/*" THEN FirstWhere(produces, LAMBDA p : p \in registered)
  ELSE IF r.media \in SeqToSet(produces) /\ r.media \in registered THEN r.media
  ELSE IF pol.wild /\ IsTypeWild(r.media)
       THEN FirstWhere(produces, LAMBDA p : p \in registered /\ TypeOf(p) = TypeOf(r.media))
       ELSE ""

RECURSIVE Walk(_, _, _, _, _)
Walk(pol, produces, registered, rs, i) ==
  IF i > Len(rs) THEN ""
  ELSE LET p == RangePick(pol, produces, registered, rs[i]) IN
       IF p # "" THEN p ELSE Walk(pol, produces, registered, rs, i + 1)

Choice(pol, produces, registered, hdr) ==
  IF hdr = "" THEN FirstWhere(produces, LAMBDA p : p \in registered)
  ELSE LET all == AcceptRanges(hdr)
           rs  == IF pol.dropQ0 THEN SelectSeq(all, LAMBDA r : r.q # 0) ELSE all
       IN Walk(pol, produces, registered, Ranked(rs), 1)

Policies == [wild : BOOLEAN, dropQ0 : BOOLEAN]
BestSet(produces, registered, hdr) ==
  {Choice(pol, produces, registered, hdr) : pol \in Policies} \ {""}
\* a malformed q-value leaves the ranking of that range open: only membership is demanded
WellFormedQ(hdr) == hdr = "" \/ \A i \in 1..Len(AcceptRanges(hdr)) : AcceptRanges(hdr)[i].q >= 0

\* ---------- Layer B: mime.go sortedMimes / insertMime ----------
\* TrimsAndScansParams = TRUE models the repaired parser (media type and q value trimmed, q
\* looked up among all parameters); FALSE is the legacy parser (counter-model)
CONSTANTS TrimsAndScansParams, ProducesFirst

RECURSIVE InsertMime(_, _, _)
InsertMime(l, e, i) ==
  IF i > Len(l) THEN Append(l, e)
  ELSE IF e.q > l[i].q THEN SubSeq(l, 1, i - 1) \o <<e>> \o SubSeq(l, i, Len(l))
  ELSE InsertMime(l, e, i + 1)

\* one element of the header -> [ok, media, q]
ImplRange(each) ==
  LET taq == SplitOn(Trim(each, " "), ";") IN
  IF TrimsAndScansParams
  THEN LET qi == {i \in 2..Len(taq) :
                    LET qw == SplitOn(taq[i], "=") IN Len(qw) = 2 /\ Trim(qw[1], " ") = "q"}
       IN IF qi = {} THEN [ok |-> TRUE, media |-> Trim(taq[1], " "), q |-> 1000]
          ELSE LET i == CHOOSE j \in qi : \A k \in qi : j <= k
                   v == ParseMilli(Trim(SplitOn(taq[i], "=")[2], " "))
               IN [ok |-> v >= 0, media |-> Trim(taq[1], " "), q |-> v]
  ELSE IF Len(taq) = 1 THEN [ok |-> TRUE, media |-> taq[1], q |-> 1000]
       ELSE LET qw == SplitOn(taq[2], "=") IN
            IF Len(qw) = 2 /\ Trim(qw[1], " ") = "q"
            THEN LET v == ParseMilli(qw[2]) IN [ok |-> v >= 0, media |-> taq[1], q |-> v]
            ELSE [ok |-> TRUE, media |-> taq[1], q |-> 1000]

RECURSIVE SortedMimesFrom(_, _, _)
SortedMimesFrom(parts, i, acc) ==
  IF i > Len(parts) THEN acc
  ELSE LET r == ImplRange(parts[i]) IN
       SortedMimesFrom(parts, i + 1, IF r.ok THEN InsertMime(acc, [media |-> r.media, q |-> r.q], 1) ELSE acc)
SortedMimes(hdr) == SortedMimesFrom(SplitOn(hdr, ","), 1, <<>>)

\* entity_accessors.go:69 accessorAt: exact, else ANY registered key contained in the string
\* (map iteration order is random: a set of possible answers)
AccessorAt(registered, mime) ==
  IF mime \in registered THEN {mime} ELSE {k \in registered : StrContains(mime, k)}

\* response.go:84 EntityWriter: set of media types the writer may end up with ("" = 406)
RECURSIVE ImplWalk(_, _, _, _)
ImplWalk(produces, registered, sorted, i) ==
  IF i > Len(sorted) THEN {}
  ELSE LET a == sorted[i].media
           exact == IF a \in SeqToSet(produces) THEN AccessorAt(registered, a) ELSE {}
           star  == IF a = "*/*"
                    THEN LET ix == {j \in 1..Len(produces) : AccessorAt(registered, produces[j]) # {}} IN
                         IF ix = {} THEN {} ELSE AccessorAt(registered, produces[CHOOSE j \in ix : \A k \in ix : j <= k])
                    ELSE {}
       IN IF exact # {} THEN exact ELSE IF star # {} THEN star
          ELSE ImplWalk(produces, registered, sorted, i + 1)

ImplChoice(produces, registered, hdr, default) ==
  \* response.go: a missing Accept header is walked as "*/*" (a repair of this work).  When the walk finds nothing:
  \* ProducesFirst = TRUE (another repair): the first Produces entry that has a writer, and only for a Response without
  \* Produces the look-up of the whole header (exact, else ANY registered key it contains) and the package default;
  \* FALSE (before): header look-up, then the default, then Produces - which writes types the route does not produce.
  LET w == ImplWalk(produces, registered, SortedMimes(IF hdr = "" THEN "*/*" ELSE hdr), 1)
      ix == {j \in 1..Len(produces) : AccessorAt(registered, produces[j]) # {}}
      firstProd == IF ix = {} THEN {} ELSE AccessorAt(registered, produces[CHOOSE j \in ix : \A k \in ix : j <= k])
      direct == AccessorAt(registered, hdr)
      dflt == IF default \in {"application/json", "application/xml"} THEN AccessorAt(registered, default) ELSE {}
  IN IF w # {} THEN w
     ELSE IF ProducesFirst
          THEN (IF firstProd # {} THEN firstProd ELSE IF direct # {} THEN direct ELSE IF dflt # {} THEN dflt ELSE {""})
          ELSE (IF direct # {} THEN direct ELSE IF dflt # {} THEN dflt ELSE IF firstProd # {} THEN firstProd ELSE {""})
=============================================================================

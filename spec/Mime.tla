------------------------------- MODULE Mime -------------------------------
(***************************************************************************)
(* Accept / Content-Type header parsing (RFC 7231 shape, SP as optional    *)
(* whitespace) and the admission predicates used by route selection.       *)
(***************************************************************************)
EXTENDS Strings

\* media type of one comma-separated element: text before the first ";", SP-trimmed
MediaOf(part) ==
  LET k == Index(part, ";") IN Trim(IF k = 0 THEN part ELSE SubSeq(part, 1, k - 1), " ")

\* parameters of one element: sequence of <<name, value>> (SP-trimmed, name lower-cased)
ParamsOf(part) ==
  LET ps == SplitOn(part, ";") IN
  [i \in 1..(Len(ps) - 1) |->
     LET p == ps[i + 1]   e == Index(p, "=") IN
     IF e = 0 THEN <<ToLower(Trim(p, " ")), "">>
     ELSE <<ToLower(Trim(SubSeq(p, 1, e - 1), " ")), Trim(SubSeq(p, e + 1, Len(p)), " ")>>]

\* q in thousandths: default 1000; -1 when a q parameter is present but malformed
QOf(part) ==
  LET ps == ParamsOf(part)
      qi == {i \in 1..Len(ps) : ps[i][1] = "q"}
  IN IF qi = {} THEN 1000
     ELSE LET i == CHOOSE j \in qi : \A k \in qi : j <= k IN ParseMilli(ps[i][2])

\* parsed ranges of an Accept header, in header order
AcceptRanges(hdr) ==
  LET parts == SplitOn(hdr, ",") IN
  [i \in 1..Len(parts) |-> [media |-> MediaOf(parts[i]), q |-> QOf(parts[i]), pos |-> i]]

TypeOf(media) == LET k == Index(media, "/") IN IF k = 0 THEN media ELSE SubSeq(media, 1, k - 1)
IsTypeWild(media) == HasSuffix(media, "/*") /\ media # "*/*"

\* Accept satisfiable from Produces: strict reading (every reading agrees) ...
AcceptMust(produces, hdr) ==
  \/ hdr = ""
  \/ \E i \in 1..Len(AcceptRanges(hdr)) :
       LET r == AcceptRanges(hdr)[i] IN
       /\ r.q > 0
       /\ \/ r.media = "*/*"
          \/ \E j \in 1..Len(produces) : produces[j] = r.media \/ produces[j] = "*/*"
\* ... and loose reading (some reading accepts)
AcceptMay(produces, hdr) ==
  \/ hdr = ""
  \/ produces = <<>>
  \/ \E i \in 1..Len(AcceptRanges(hdr)) :
       LET r == AcceptRanges(hdr)[i] IN
       \/ r.media = "*/*"
       \/ \E j \in 1..Len(produces) :
            \/ produces[j] = r.media \/ produces[j] = "*/*"
            \/ IsTypeWild(r.media) /\ TypeOf(r.media) = TypeOf(produces[j])

\* Content-Type admitted by Consumes (route.go documents the missing-header rule)
SafeNoBody == {"GET", "HEAD", "OPTIONS", "DELETE", "TRACE"}
CtAdmits(method, consumes, noct, ct) ==
  IF consumes = <<>> THEN TRUE
  ELSE IF ct = "" /\ (IF noct # <<>> THEN method \in SeqToSet(noct) ELSE method \in SafeNoBody) THEN TRUE
  ELSE LET eff == IF ct = "" THEN "application/octet-stream" ELSE ct
           parts == SplitOn(eff, ",")
       IN \E i \in 1..Len(parts) : \E j \in 1..Len(consumes) :
            consumes[j] = "*/*" \/ consumes[j] = MediaOf(parts[i])

\* Layer B: Route.matchesAccept as the code computes it (route.go:86); "" is sent as */*
MatchesAcceptG(prod, hdr) ==
  LET parts == SplitOn(hdr, ",") IN
  \E i \in 1..Len(parts) :
     LET mt == MediaOf(parts[i]) IN
     mt = "*/*" \/ \E j \in 1..Len(prod) : prod[j] = "*/*" \/ prod[j] = mt

=============================================================================

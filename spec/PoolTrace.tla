----------------------------- MODULE PoolTrace -----------------------------
(***************************************************************************)
(* Trace validation for C13.  The instrumenting CompressorProvider wrapped *)
(* around the real providers logs acquire (after the real acquire returned)*)
(* and release (before the real release is called) under one mutex, so the *)
(* log order is a legal linearisation.  The monitor keeps the set of held  *)
(* objects: an acquire of a held object, a release of an object that is    *)
(* not held, a use after release, an object still held at the end of a     *)
(* round, a response that does not decode to its own payload, a release    *)
(* that does not return (spin-barrier rounds) are mismatches.              *)
(***************************************************************************)
EXTENDS Integers, Sequences, FiniteSets, Json, IOUtils, TLC

Trace == ndJsonDeserialize(IOEnv.TRACE_FILE)
VARIABLES l, held
Mis(line, clause, d) == PrintT("MISMATCH " \o ToJson([line |-> line, clause |-> clause, out |-> 0, variant |-> d]))
Bump(k) == TLCSet(k, TLCGet(k) + 1)
Chk(line, ok, clause, d) == IF ok THEN TRUE ELSE Mis(line, clause, d)
\* registers: 1 line, 2 ledger events, 3 acquires made while another object was held
\* (overlapping use), 4 responses / bodies compared, 5 barrier rounds, 6 double closes

Check(line, ev) ==
  CASE ev.e = "pev" ->
         /\ Bump(2)
         /\ CASE ev.k = "acq" -> /\ Chk(line, ev.o \notin held, "C13.exclusive", <<ev.o>>)
                                 /\ IF held # {} THEN Bump(3) ELSE TRUE
              [] ev.k = "rel" -> Chk(line, ev.o \in held, "C13.releasedonce", <<ev.o>>)
              [] ev.k = "use" -> Mis(line, "C13.useafterrelease", <<ev.o>>)
              [] OTHER -> TRUE
    [] ev.e = "pend"  -> Chk(line, held = {}, "C13.releasedonce", <<"still held at the end", Cardinality(held)>>)
    [] ev.e = "presp" -> Bump(4) /\ Chk(line, ev.ok, "C13.ownpayload", <<ev.what>>)
    [] ev.e = "pbar"  -> Bump(5) /\ Chk(line, ev.stuck = 0, "C13.neverblocks", <<ev.k, ev.m, ev.stuck>>)
    [] ev.e = "pdbl"  -> /\ Bump(6) /\ Chk(line, ev.secondErr /\ ev.rels = 1, "C13.releasedonce", <<"second Close", ev.rels>>)
                         \* nothing touches the compressor after it went back (a Flush after Close, say)
                         /\ Chk(line, ev.lateUse = 0, "C13.useafterrelease", <<"after Close", ev.lateUse>>)
    \* the provider alone under contention: no object handed out while in use, nobody blocked
    [] ev.e = "pstress" -> /\ Chk(line, ev.shared = 0, "C13.exclusive", <<ev.provider, ev.shared, ev.ops>>)
                           /\ Chk(line, ev.stuck = 0, "C13.neverblocks", <<ev.provider, "stress">>)
    [] OTHER -> TRUE

Init == l = 1 /\ held = {}
Next == /\ l <= Len(Trace) /\ l' = l + 1
        /\ LET ev == Trace[l] IN
           /\ held' = CASE ev.e = "pev" /\ ev.k = "acq" -> held \cup {ev.o}
                        [] ev.e = "pev" /\ ev.k = "rel" -> held \ {ev.o}
                        [] ev.e \in {"pround", "pend"} -> {}
                        [] OTHER -> held
           /\ Check(l, ev)
        /\ TLCSet(1, l)
Spec == Init /\ [][Next]_<<l, held>>
ASSUME \A k \in 1..6 : TLCSet(k, 0)
AllConsumed ==
  /\ PrintT("COUNTERS " \o ToJson([k \in 2..6 |-> TLCGet(k)]))
  /\ IF TLCGet(1) = Len(Trace) THEN PrintT("CONSUMED " \o ToString(Len(Trace)))
     ELSE PrintT("STOPPED-AT " \o ToString(TLCGet(1)))
=============================================================================

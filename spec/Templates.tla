----------------------------- MODULE Templates -----------------------------
(***************************************************************************)
(* Path templates of go-restful: tokenising, token grammar, the regex      *)
(* catalogue, and the two readings of "segment seg matches token tok":     *)
(* SegMust (every reasonable reading agrees it matches) and SegMay (some   *)
(* reading accepts it).  A router is sound if it only matches inside May   *)
(* and complete if it matches everything inside Must.                      *)
(***************************************************************************)
EXTENDS Strings

\* tokenizePath under the default strategy (TrimRightSlashEnabled = TRUE):
\* "/" -> <<>>, otherwise trim every leading and trailing "/" and split.
Tokenize(path) == IF path = "/" THEN <<>> ELSE SplitOn(Trim(path, "/"), "/")
\* TrimRightSlashEnabled = FALSE: only leading slashes are trimmed
TokenizeKeepRight(path) == IF path = "/" THEN <<>> ELSE SplitOn(TrimL(path, "/"), "/")

\* concatPath under the default strategy
FullTemplate(root, rpath) == TrimR(root, "/") \o "/" \o TrimL(rpath, "/")

\* A request path is canonical when it starts with one "/", has no empty inner
\* segment and at most one trailing "/".  Only canonical paths MUST match.
Canon(path) == /\ HasPrefix(path, "/")
               /\ ~StrContains(path, "//")

EndsWithSlash(path) == Len(path) > 1 /\ HasSuffix(path, "/")

---------------------------------------------------------------------------
\* custom verb: the token ends in ":" followed by one or more letters
VerbOf(tok) ==
  LET k == LastIndex(tok, ":") IN
  IF k = 0 \/ k = Len(tok) THEN ""
  ELSE IF AllIn(SubSeq(tok, k + 1, Len(tok)), Alpha) THEN SubSeq(tok, k, Len(tok)) ELSE ""

NoTok == [kind |-> "lit", lit |-> "", name |-> "", pre |-> "", suf |-> "", re |-> "", verb |-> "", src |-> ""]

\* kind: "lit" | "var" | "re" | "tail"
ParseTok(tok) ==
  LET verb == VerbOf(tok)
      core == SubSeq(tok, 1, Len(tok) - Len(verb))
      ob   == Index(core, "{")
  IN IF ob = 0
     THEN [NoTok EXCEPT !.lit = core, !.verb = verb, !.src = tok]
     ELSE LET cb    == LastIndex(core, "}")
              inner == SubSeq(core, ob + 1, cb - 1)
              col   == Index(inner, ":")
              pre   == SubSeq(core, 1, ob - 1)
              suf   == SubSeq(core, cb + 1, Len(core))
          IN IF col = 0
             THEN [NoTok EXCEPT !.kind = "var", !.name = inner, !.pre = pre, !.suf = suf,
                                !.verb = verb, !.src = tok]
             ELSE LET re == SubSeq(inner, col + 1, Len(inner)) IN
                  [NoTok EXCEPT !.kind = IF re = "*" THEN "tail" ELSE "re",
                                !.name = SubSeq(inner, 1, col - 1), !.re = re,
                                !.pre = pre, !.suf = suf, !.verb = verb, !.src = tok]

ParseToks(toks) == [i \in 1..Len(toks) |-> ParseTok(toks[i])]
ParseTemplate(path) == ParseToks(Tokenize(path))

IsLit(p) == p.kind = "lit"
IsVarLike(p) == p.kind \in {"var", "re"}
VarNames(ptoks) == {ptoks[i].name : i \in {j \in 1..Len(ptoks) : ptoks[j].kind # "lit"}}

---------------------------------------------------------------------------
\* Regex catalogue (slash-free).  ReFull: the whole string matches.
\* ReSearch: some substring matches (Go's regexp.MatchString).
ReCatalogue == {"[0-9]+", "[a-z]+", "[a-z0-9]+", "[A-Z][A-Z]", "[0-9]{2}", "(cats|dogs)", "(a|b)-(c|d)"}

ReFull(re, s) ==
  CASE re = "[0-9]+"     -> Len(s) >= 1 /\ AllIn(s, Digit)
    [] re = "[a-z]+"     -> Len(s) >= 1 /\ AllIn(s, Lower)
    [] re = "[a-z0-9]+"  -> Len(s) >= 1 /\ AllIn(s, Lower \cup Digit)
    [] re = "[A-Z][A-Z]" -> Len(s) = 2 /\ AllIn(s, Upper)
    [] re = "[0-9]{2}"   -> Len(s) = 2 /\ AllIn(s, Digit)
    [] re = "(cats|dogs)" -> s \in {"cats", "dogs"}      \* an alternation with its own capturing group
    [] re = "(a|b)-(c|d)" -> s \in {"a-c", "a-d", "b-c", "b-d"}   \* two groups of its own, neither spans the expression
    [] OTHER             -> FALSE

ReSearch(re, s) ==
  CASE re = "[0-9]+"     -> SomeIn(s, Digit)
    [] re = "[a-z]+"     -> SomeIn(s, Lower)
    [] re = "[a-z0-9]+"  -> SomeIn(s, Lower \cup Digit)
    [] re = "[A-Z][A-Z]" -> \E i \in 1..(Len(s) - 1) : Ch(s, i) \in Upper /\ Ch(s, i + 1) \in Upper
    [] re = "[0-9]{2}"   -> \E i \in 1..(Len(s) - 1) : Ch(s, i) \in Digit /\ Ch(s, i + 1) \in Digit
    [] re = "(cats|dogs)" -> StrContains(s, "cats") \/ StrContains(s, "dogs")
    [] re = "(a|b)-(c|d)" -> \E x \in {"a-c", "a-d", "b-c", "b-d"} : StrContains(s, x)
    [] OTHER             -> FALSE

ReSupported(re) == re \in ReCatalogue

---------------------------------------------------------------------------
\* the part of the URL segment the token's variable stands for
Stem(p, seg) == IF p.verb = "" THEN seg ELSE SubSeq(seg, 1, Len(seg) - Len(p.verb))
Value(p, seg) ==
  LET st == Stem(p, seg) IN SubSeq(st, Len(p.pre) + 1, Len(st) - Len(p.suf))

SegMay(p, seg) ==
  /\ p.verb = "" \/ HasSuffix(seg, p.verb)
  /\ LET st == Stem(p, seg) IN
     CASE p.kind = "lit"  -> st = p.lit
       [] p.kind = "var"  -> /\ Len(st) >= Len(p.pre) + Len(p.suf)
                             /\ HasPrefix(st, p.pre) /\ HasSuffix(st, p.suf)
       [] p.kind = "re"   -> ReSearch(p.re, st)
       [] p.kind = "tail" -> TRUE

SegMust(p, seg) ==
  /\ p.verb = "" \/ HasSuffix(seg, p.verb)
  /\ LET st == Stem(p, seg) IN
     CASE p.kind = "lit"  -> st = p.lit
       [] p.kind = "var"  -> /\ Len(st) > Len(p.pre) + Len(p.suf)
                             /\ HasPrefix(st, p.pre) /\ HasSuffix(st, p.suf)
       [] p.kind = "re"   -> ReFull(p.re, st)
       [] p.kind = "tail" -> TRUE

HasTail(pt) == Len(pt) > 0 /\ pt[Len(pt)].kind = "tail"

\* pt: parsed template tokens, rt: request tokens
PathMay(pt, rt) ==
  IF HasTail(pt)
  THEN Len(rt) >= Len(pt) - 1 /\ \A i \in 1..(Len(pt) - 1) : SegMay(pt[i], rt[i])
  ELSE Len(rt) = Len(pt) /\ \A i \in 1..Len(pt) : SegMay(pt[i], rt[i])
PathMust(pt, rt) ==
  IF HasTail(pt)
  THEN Len(rt) >= Len(pt) /\ \A i \in 1..(Len(pt) - 1) : SegMust(pt[i], rt[i])
  ELSE Len(rt) = Len(pt) /\ \A i \in 1..Len(pt) : SegMust(pt[i], rt[i])

\* a service root claims a URL when its tokens match a prefix of the request tokens
ClaimMay(pt, rt)  == Len(rt) >= Len(pt) /\ \A i \in 1..Len(pt) : SegMay(pt[i], rt[i])
ClaimMust(pt, rt) == Len(rt) >= Len(pt) /\ \A i \in 1..Len(pt) : SegMust(pt[i], rt[i])

\* values a variable may be bound to
TailJoin(rt, i) == JoinWith(SubSeq(rt, i, Len(rt)), "/")
AllowedValues(pt, rt, path, i) ==
  IF pt[i].kind = "tail"
  THEN {TailJoin(rt, i)} \cup (IF EndsWithSlash(path) THEN {TailJoin(rt, i) \o "/"} ELSE {})
  ELSE IF i <= Len(rt) THEN {Value(pt[i], rt[i])} ELSE {""}

\* substitute bound values back into the template (round trip, C04)
SubstTok(p, val) == IF p.kind = "lit" THEN p.lit \o p.verb ELSE p.pre \o val \o p.suf \o p.verb
=============================================================================

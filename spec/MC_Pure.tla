------------------------------ MODULE MC_Pure ------------------------------
(***************************************************************************)
(* C19: serving a request is a pure function of configuration and request. *)
(* Model: up to three requests in flight on one container, each going      *)
(* through select (route + parameter extraction), two filter steps (set /  *)
(* read a request attribute, CORS method computation) and the handler,     *)
(* interleaved in every possible way.  What is per request in the code     *)
(* (parameter map, attribute map, filter chain with its index, the CORS    *)
(* filter copy holding computed methods) is per request here; each of the  *)
(* constants SharedParams, SharedAttrs, SharedChain, SharedCors moves one  *)
(* of them into shared state - counter-models that TLC must refute, which  *)
(* shows the invariant is able to see exactly the defects C19 is about.    *)
(***************************************************************************)
EXTENDS Integers, Sequences, FiniteSets, TLC, Json

CONSTANTS NReq, SharedParams, SharedAttrs, SharedChain, SharedCors

Keys == {"/a/1", "/a/2", "/b"}                 \* request keys (URL); a request is its key
ParamOf(k) == IF k = "/a/1" THEN "1" ELSE IF k = "/a/2" THEN "2" ELSE ""
MethodsOf(k) == IF k = "/b" THEN {"GET", "PUT"} ELSE {"GET"}
\* the function of (configuration, request) every observation must equal
Expected(k) == [param |-> ParamOf(k), attr |-> k, methods |-> MethodsOf(k), ran |-> 1]

R == 1..NReq
VARIABLES key, pc, params, attrs, idx, cors, obs, gparams, gattrs, gidx, gcors
vars == <<key, pc, params, attrs, idx, cors, obs, gparams, gattrs, gidx, gcors>>

Init == /\ key \in [R -> Keys]
        /\ pc = [r \in R |-> "select"]
        /\ params = [r \in R |-> "none"] /\ attrs = [r \in R |-> "none"]
        /\ idx = [r \in R |-> 0] /\ cors = [r \in R |-> {}]
        /\ obs = [r \in R |-> [param |-> "none", attr |-> "none", methods |-> {}, ran |-> 0]]
        /\ gparams = "none" /\ gattrs = "none" /\ gidx = 0 /\ gcors = {}

\* route selection binds the path parameters (route.go:71 wrapRequestResponse: a new map)
Select(r) ==
  /\ pc[r] = "select" /\ pc' = [pc EXCEPT ![r] = "f1"]
  /\ IF SharedParams THEN gparams' = ParamOf(key[r]) /\ UNCHANGED params
     ELSE params' = [params EXCEPT ![r] = ParamOf(key[r])] /\ UNCHANGED gparams
  \* a new FilterChain per request (container.go:290): index starts at 0
  /\ IF SharedChain THEN UNCHANGED <<idx, gidx>> ELSE idx' = [idx EXCEPT ![r] = 0] /\ UNCHANGED gidx
  /\ UNCHANGED <<key, attrs, cors, obs, gattrs, gcors>>

ChainIdx(r) == IF SharedChain THEN gidx ELSE idx[r]
Advance(r) == IF SharedChain THEN gidx' = gidx + 1 /\ UNCHANGED idx
              ELSE idx' = [idx EXCEPT ![r] = @ + 1] /\ UNCHANGED gidx

\* filter 1 sets a request attribute; runs only if the chain index says it is its turn
F1(r) ==
  /\ pc[r] = "f1" /\ pc' = [pc EXCEPT ![r] = "f2"]
  /\ IF ChainIdx(r) = 0
     THEN /\ Advance(r)
          /\ IF SharedAttrs THEN gattrs' = key[r] /\ UNCHANGED attrs
             ELSE attrs' = [attrs EXCEPT ![r] = key[r]] /\ UNCHANGED gattrs
     ELSE UNCHANGED <<idx, gidx, attrs, gattrs>>
  /\ UNCHANGED <<key, params, cors, obs, gparams, gcors>>

\* filter 2: the CORS filter computes the allowed methods for this URL when none are configured
\* (value receiver: on its own copy); a pointer receiver would keep the first computation
F2(r) ==
  /\ pc[r] = "f2" /\ pc' = [pc EXCEPT ![r] = "handler"]
  /\ IF ChainIdx(r) = 1
     THEN /\ Advance(r)
          /\ IF SharedCors THEN gcors' = (IF gcors = {} THEN MethodsOf(key[r]) ELSE gcors) /\ UNCHANGED cors
             ELSE cors' = [cors EXCEPT ![r] = MethodsOf(key[r])] /\ UNCHANGED gcors
     ELSE UNCHANGED <<idx, gidx, cors, gcors>>
  /\ UNCHANGED <<key, params, attrs, obs, gparams, gattrs>>

Handler(r) ==
  /\ pc[r] = "handler" /\ pc' = [pc EXCEPT ![r] = "done"]
  /\ obs' = [obs EXCEPT ![r] = [param |-> IF SharedParams THEN gparams ELSE params[r],
                                attr |-> IF SharedAttrs THEN gattrs ELSE attrs[r],
                                methods |-> IF SharedCors THEN gcors ELSE cors[r],
                                ran |-> IF ChainIdx(r) = 2 THEN 1 ELSE 0]]
  /\ UNCHANGED <<key, params, attrs, idx, cors, gparams, gattrs, gidx, gcors>>

Next == \E r \in R : Select(r) \/ F1(r) \/ F2(r) \/ Handler(r)
Spec == Init /\ [][Next]_vars

\* C19.function / C19.isolation: whatever the interleaving, every finished request observed
\* exactly the function of its own request
Pure == \A r \in R : pc[r] = "done" => obs[r] = Expected(key[r])
\* serving never changes what a later request will be answered (no residue)
NoResidue == (\A r \in R : pc[r] = "done") => gparams = "none" /\ gattrs = "none" /\ gidx = 0 /\ gcors = {}
=============================================================================

"""Shared machinery of /verif/bin/check: work directories, building the Go harness from
/repo's working tree, running TLC (model checking, simulation, trace validation), known
findings, replay files, evidence files."""
import concurrent.futures as cf
import hashlib
import json
import os
import re
import shutil
import subprocess
import sys
import tempfile
import time

VERIF = os.path.dirname(os.path.dirname(os.path.abspath(__file__)))
SPEC = os.path.join(VERIF, "spec")
HARNESS = os.path.join(VERIF, "harness")
TLA_CP = "/opt/veriftools/tla/tla2tools.jar:/opt/veriftools/tla/CommunityModules-deps.jar"
NCPU = os.cpu_count() or 4


class Infra(Exception):
    """tool failure, timeout, dead driver: exit 2, never a violation"""


class Run:
    def __init__(self, prop, tier, seed):
        self.prop, self.tier, self.seed = prop, tier, seed
        self.t0 = time.time()
        base = os.path.join(VERIF, ".work")
        os.makedirs(base, exist_ok=True)
        self.wd = tempfile.mkdtemp(prefix="%s-%s-" % (prop, tier), dir=base)
        self.states = 0
        self.transitions = 0
        self.tlc_runs = []
        self.notes = []
        self.violations = []      # (clause, replay_path, text)
        self.known = {}           # finding id -> count
        self.other = {}           # clause (other property) -> count
        self.cov = {}

    def path(self, *a):
        return os.path.join(self.wd, *a)

    def cleanup(self):
        shutil.rmtree(self.wd, ignore_errors=True)

    def elapsed(self):
        return time.time() - self.t0


def goenv():
    env = dict(os.environ)
    env.update(GOFLAGS="-mod=mod", GOPROXY="off", GOSUMDB="off", GOTOOLCHAIN="local")
    env.setdefault("GOCACHE", os.path.join(VERIF, ".work", "gocache"))
    return env


def build_harness(run, race=False):
    out = run.path("vh-race" if race else "vh")
    if os.path.exists(out):
        return out
    cmd = ["go", "build", "-tags", "verif"] + (["-race"] if race else []) + ["-o", out, "."]
    src = HARNESS
    alt = os.environ.get("VERIF_REPO")
    if alt:
        # self-test only (seeded mutants in scratch worktrees): the registered commands never set it,
        # they always build against /repo's working tree
        src = run.path("harness-src")
        if not os.path.isdir(src):
            shutil.copytree(HARNESS, src, ignore=shutil.ignore_patterns("vh", "vh-race"))
            gm = open(os.path.join(src, "go.mod")).read().replace("=> /repo", "=> " + alt)
            open(os.path.join(src, "go.mod"), "w").write(gm)
    p = subprocess.run(cmd, cwd=src, env=goenv(), capture_output=True, text=True)
    if p.returncode != 0:
        raise Infra("harness does not build against /repo:\n" + p.stdout + p.stderr)
    return out


def run_harness(run, binary, driver, plan, out_name, seed=None, timeout=900, env_extra=None, allow_fail=False):
    plan_path = run.path(out_name + ".plan.json")
    with open(plan_path, "w") as f:
        json.dump(plan, f)
    out_path = run.path(out_name + ".ndjson")
    env = goenv()
    if env_extra:
        env.update(env_extra)
    cmd = [binary, driver, "-in", plan_path, "-out", out_path, "-seed", str(run.seed if seed is None else seed)]
    try:
        p = subprocess.run(cmd, env=env, capture_output=True, text=True, timeout=timeout)
    except subprocess.TimeoutExpired:
        raise Infra("harness driver %s timed out after %ds" % (driver, timeout))
    if p.returncode != 0 and not allow_fail:
        raise Infra("harness driver %s failed (exit %d):\n%s" % (driver, p.returncode, (p.stdout + p.stderr)[-4000:]))
    run.last_harness = p
    return out_path


# ---------------------------------------------------------------- TLC

class TlcResult:
    def __init__(self):
        self.lines = []
        self.generated = 0
        self.distinct = 0
        self.cases = []
        self.mismatches = []
        self.prints = []
        self.error = None
        self.violated = None
        self.consumed = None
        self.wall = 0.0
        self.coverage = {}
        self.counters = {}
        self.pool = None


import threading
_stage_lock = threading.Lock()


def stage_spec(run):
    d = run.path("spec")
    with _stage_lock:
        if not os.path.isdir(d):
            shutil.copytree(SPEC, d)
    return d


_state_re = re.compile(r"^(\d[\d,]*) states generated, (\d[\d,]*) distinct states found")


def tlc(run, module, cfg, workers=1, env=None, heap="3g", timeout=1800, extra=None, tag=None, deadlock=False,
        expect_violation=False):
    """run TLC on spec/<module>.tla with the given cfg text; parse its output"""
    d = stage_spec(run)
    tag = tag or module
    cfg_path = os.path.join(d, tag + ".cfg")
    with open(cfg_path, "w") as f:
        f.write(cfg)
    meta = run.path("md-" + tag)
    e = dict(os.environ)
    if env:
        e.update(env)
    cmd = ["java", "-XX:+UseParallelGC", "-Xmx" + heap, "-Xss64m", "-Dfile.encoding=UTF-8",
           "-Djava.io.tmpdir=" + run.wd, "-cp", TLA_CP, "tlc2.TLC", "-workers", str(workers),
           "-metadir", meta, "-config", cfg_path, "-noGenerateSpecTE"]
    if not deadlock:
        pass
    if extra:
        cmd += extra
    cmd.append(os.path.join(d, module + ".tla"))
    res = TlcResult()
    t0 = time.time()
    try:
        p = subprocess.run(cmd, cwd=d, env=e, capture_output=True, text=True, timeout=timeout)
    except subprocess.TimeoutExpired:
        raise Infra("TLC timed out on %s after %ds" % (tag, timeout))
    res.wall = time.time() - t0
    shutil.rmtree(meta, ignore_errors=True)
    for line in p.stdout.split("\n"):
        res.lines.append(line)
        if line.startswith('"CASE '):
            try:
                res.cases.append(json.loads(json.loads(line)[5:]))
            except Exception:
                raise Infra("unparsable CASE line from TLC: " + line[:200])
        elif line.startswith('"MISMATCH '):
            res.mismatches.append(json.loads(json.loads(line)[9:]))
        elif line.startswith('"POOL '):
            res.pool = json.loads(json.loads(line)[5:])
        elif line.startswith('"COUNTERS '):
            c = json.loads(json.loads(line)[9:])
            res.counters = {int(k): v for k, v in (c.items() if isinstance(c, dict) else enumerate(c, 2))}
        elif line.startswith('"CONSUMED '):
            res.consumed = int(json.loads(line).split()[1])
        elif line.startswith('"STOPPED-AT '):
            res.consumed = -int(json.loads(line).split()[1]) - 1
        elif line.startswith('"') or line.startswith("<<"):
            res.prints.append(line)
        m = _state_re.match(line)
        if m:
            res.generated = int(m.group(1).replace(",", ""))
            res.distinct = int(m.group(2).replace(",", ""))
        if line.startswith("Error:") and res.error is None:
            res.error = line
            m2 = re.match(r"Error: Invariant (\w+) is violated", line)
            if m2:
                res.violated = m2.group(1)
            m3 = re.match(r"Error: Action property (\w+) is violated", line)
            if m3:
                res.violated = m3.group(1)
            if "Temporal properties were violated" in line:
                res.violated = "temporal"
            if "Deadlock reached" in line:
                res.violated = "deadlock"
    run.states += res.distinct
    run.transitions += res.generated
    run.tlc_runs.append({"spec": tag, "states": res.distinct, "transitions": res.generated,
                         "wall_s": round(res.wall, 1), "workers": workers})
    if res.error and not res.violated:
        raise Infra("TLC failed on %s: %s\n%s" % (tag, res.error, "\n".join(res.lines[-40:])))
    if res.violated and not expect_violation:
        res.trace_text = "\n".join(res.lines)
    if p.returncode != 0 and not res.error:
        raise Infra("TLC exit %d on %s\n%s" % (p.returncode, tag, "\n".join(res.lines[-40:]) + p.stderr[-2000:]))
    return res


TRACE_CFG = "SPECIFICATION Spec\nPOSTCONDITION AllConsumed\nCHECK_DEADLOCK FALSE\n"


def validate_shards(run, module, shards, cfg=TRACE_CFG, heap="2g", timeout=1800, const="", reg_names=None):
    """trace-validate every shard (list of event lists) with its own TLC process; returns
    list of (event, mismatch) and the number of consumed events"""
    files = []
    for i, evs in enumerate(shards):
        if not evs:
            continue
        fp = run.path("shard-%s-%d.ndjson" % (module, i))
        with open(fp, "w") as f:
            for ev in evs:
                f.write(json.dumps(ev, ensure_ascii=True) + "\n")
        files.append((i, fp, evs))
    out = []
    consumed = 0

    def one(item):
        i, fp, evs = item
        r = tlc(run, module, cfg + const, workers=1, env={"TRACE_FILE": fp}, heap=heap, timeout=timeout,
                tag="%s-%d" % (module, i))
        if r.violated:
            raise Infra("trace spec %s reported %s (a trace spec is a total monitor and must not)" % (module, r.violated))
        if r.consumed != len(evs):
            raise Infra("trace spec %s consumed %s of %d events of shard %d" % (module, r.consumed, len(evs), i))
        return [(evs[m["line"] - 1], m) for m in r.mismatches], len(evs), r.counters

    with cf.ThreadPoolExecutor(max_workers=NCPU) as ex:
        for ms, n, counters in ex.map(one, files):
            out.extend(ms)
            consumed += n
            for k, v in counters.items():
                name = reg_names[k - 1] if reg_names and k - 1 < len(reg_names) else str(k)
                run.cov[name] = run.cov.get(name, 0) + v
    return out, consumed


def read_ndjson(path):
    evs = []
    with open(path) as f:
        for line in f:
            line = line.strip()
            if line:
                evs.append(json.loads(line))
    return evs


# ---------------------------------------------------------------- findings, replays, evidence

def load_known():
    p = os.path.join(VERIF, "known_findings.json")
    if not os.path.exists(p):
        return []
    return [k for k in json.load(open(p))["findings"] if k.get("status") == "known"]


OUT = os.environ.get("VERIF_OUT", VERIF)   # self-test runs redirect evidence / replays


def write_replay(run, clause, payload):
    os.makedirs(os.path.join(OUT, "replays"), exist_ok=True)
    blob = json.dumps(payload, sort_keys=True)
    dig = hashlib.sha1(blob.encode()).hexdigest()[:10]
    path = os.path.join(OUT, "replays", "%s-%s.json" % (run.prop, dig))
    with open(path, "w") as f:
        json.dump(payload, f, indent=1, sort_keys=True)
    return path


def write_evidence(run, level, coverage, assumptions, violations):
    os.makedirs(os.path.join(OUT, "evidence"), exist_ok=True)
    ev = {
        "property_id": run.prop,
        "tier": run.tier,
        "seed": run.seed,
        "level": level,
        "coverage": coverage,
        "assumptions": assumptions,
        "wall_s": round(run.elapsed(), 1),
        "violations": violations,
    }
    with open(os.path.join(OUT, "evidence", run.prop + ".json"), "w") as f:
        json.dump(ev, f, indent=1)
    return ev


def finish(run, level, coverage, assumptions):
    """print verdict lines, write evidence, return exit code"""
    coverage.setdefault("states", run.states)
    coverage.setdefault("transitions", run.transitions)
    coverage["tlc_runs"] = run.tlc_runs
    coverage["known_findings_hit"] = run.known
    coverage["other_property_mismatches"] = run.other
    if run.notes:
        coverage["notes"] = run.notes
    seen = set()
    nviol = 0
    for clause, replay, text in run.violations:
        if clause in seen:
            continue
        seen.add(clause)
        nviol += 1
        print("VIOLATION property=%s replay=%s clause=%s %s" % (run.prop, replay, clause, text))
    for fid, (n, text) in sorted(run.known.items()):
        print("KNOWN-FINDING: property=%s %s [%s, %d observation(s)]" % (run.prop, text, fid, n))
    coverage["known_findings_hit"] = {k: v[0] for k, v in run.known.items()}
    if not getattr(run, "is_replay", False):      # a replay re-runs one witness: it is not evidence
        write_evidence(run, level, coverage, assumptions, nviol)
    print("%s %s seed=%d: states=%d transitions=%d traces=%s evaluations=%s nontrivial=%s wall=%.1fs %s" % (
        run.prop, run.tier, run.seed, coverage.get("states", 0), coverage.get("transitions", 0),
        coverage.get("traces_validated_against_impl"), coverage.get("evaluations"),
        coverage.get("distinct_nontrivial"), run.elapsed(), "VIOLATED" if nviol else "ok"))
    return 1 if nviol else 0


def shards_by_group(start, pred=None):
    """split a trace into shards at events of type `start` (which open a logical trace);
    pred(ev) may further restrict which of them open one"""
    def split(events, n):
        groups, cur = [], []
        for ev in events:
            if ev["e"] == start and cur and (pred is None or pred(ev)):
                groups.append(cur)
                cur = []
            cur.append(ev)
        if cur:
            groups.append(cur)
        shards = [[] for _ in range(n)]
        sizes = [0] * n
        for g in sorted(groups, key=len, reverse=True):
            i = sizes.index(min(sizes))
            shards[i].extend(g)
            sizes[i] += len(g)
        return shards
    return split


def chunk(seq, n):
    n = max(1, n)
    k = (len(seq) + n - 1) // n
    return [seq[i:i + k] for i in range(0, len(seq), k)] if k else []


def apalache(run, module, cinit, init, inv, length, tag, timeout=900):
    """run `apalache-mc check` on spec/<module>.tla (typed specification); returns "NoError" or "Error".
    Anything else (tool missing, timeout, parse error) is an infrastructure failure, never a verdict."""
    d = stage_spec(run)
    out = run.path("apa-" + tag)
    os.makedirs(out, exist_ok=True)
    cmd = ["apalache-mc", "check", "--cinit=" + cinit, "--init=" + init, "--inv=" + inv, "--length=%d" % length,
           "--out-dir=" + out, os.path.join(d, module + ".tla")]
    e = dict(os.environ, JVM_ARGS="-Xmx2g -Djava.io.tmpdir=" + run.wd)
    try:
        p = subprocess.run(cmd, cwd=out, env=e, capture_output=True, text=True, timeout=timeout)
    except subprocess.TimeoutExpired:
        raise Infra("apalache timed out on %s after %ds" % (tag, timeout))
    except FileNotFoundError:
        raise Infra("apalache-mc is not installed")
    shutil.rmtree(out, ignore_errors=True)
    m = re.search(r"The outcome is: (\w+)", p.stdout)
    if not m or m.group(1) not in ("NoError", "Error"):
        raise Infra("apalache gave no verdict on %s:\n%s" % (tag, (p.stdout + p.stderr)[-1500:]))
    return m.group(1)


def inductive(run, module, cinits, legacy_cinit, nonvacuity_inv, mc_info):
    """IndInv of a typed specification is an inductive invariant (for every constant initialiser), the counter-model
    is not, and IndInit is satisfiable; all runs side by side"""
    jobs = []
    for ci in cinits:
        jobs.append((ci, "Init", "IndInv", 0, "NoError", "%s: Init => IndInv" % ci))
        jobs.append((ci, "IndInit", "IndInv", 1, "NoError", "%s: IndInv /\\ Next => IndInv'" % ci))
    jobs.append((legacy_cinit, "IndInit", "IndInv", 1, "Error", "%s (counter-model): IndInv is NOT inductive" % legacy_cinit))
    jobs.append((cinits[0], "IndInit", nonvacuity_inv, 0, "Error", "IndInit is satisfiable (%s is violated)" % nonvacuity_inv))

    def one(j):
        ci, init, inv, length, want, what = j
        got = apalache(run, module, ci, init, inv, length, "%s-%s-%s-%d" % (ci, init, inv, length))
        return what, want, got

    with cf.ThreadPoolExecutor(max_workers=4) as ex:
        for what, want, got in ex.map(one, jobs):
            if got != want:
                raise Infra("design check failed: apalache on %s: %s - expected %s, got %s (independent of /repo)" % (module, what, want, got))
            mc_info.append({"config": module, "tool": "apalache 0.58 (symbolic, unbounded in the number of steps)", "shown": what})


# ---------------------------------------------------------------- generic family pipeline

def simple_family(run, fam, replay=None, stages=()):
    """stages: further families run as stages of this check (not when replaying a witness): (coverage key, family)"""
    cov = family_stage(run, fam, replay)
    if replay is None:
        for key, other in stages:
            cov[key] = sub_stage(run, other)
    return finish(run, "model_checking", cov, fam["assumptions"])


def sub_stage(run, fam):
    """runs another family's pipeline as a stage of this check: its violations / known findings are added to the
    run, its counters are kept apart; returns its coverage"""
    saved = run.cov
    run.cov = {}
    try:
        cov = family_stage(run, fam, None)
    finally:
        run.cov = saved
    cov["assumptions"] = fam["assumptions"]
    return cov


def family_stage(run, fam, replay=None):
    """fam: dict with
      mc: list of (module, cfg_text, tag) run exhaustively by TLC (cases exported as CASE lines)
      mc_must_violate: list of (module, cfg_text, tag, what) counter-models TLC must refute
      driver, plans(cases, run) -> list of (name, plan, env_extra, race)
      trace_module, reg_names, eval_counter, nontrivial_counter
      rule, assumptions, sample(ev) -> dict or None, signatures {id: fn(ev, mis)}
      split(events, n) -> shards     (default: even chunks; traces without cross-event state)
      replay_plan(replay) -> plan
    """
    known = load_known()
    cases = []
    mc_info = []
    if replay is None:
        for module, cfg, tag in fam.get("mc", {}).get(run.tier, []):
            r = tlc(run, module, cfg, workers=NCPU, heap="6g", tag=tag)
            if r.violated:
                raise Infra("design check failed: %s violates %s - the specification itself is inconsistent "
                            "(independent of /repo)\n%s" % (tag, r.violated, "\n".join(r.lines[-60:])))
            mc_info.append({"config": tag, "states": r.distinct, "cases_exported": len(r.cases)})
            cases.extend(r.cases)
            if r.pool is not None:
                run.pool = r.pool
        for module, cfg, tag, what in fam.get("mc_must_violate", {}).get(run.tier, []):
            r = tlc(run, module, cfg, workers=NCPU, heap="6g", tag=tag, expect_violation=True)
            if not r.violated:
                raise Infra("vacuity: counter-model %s (%s) was NOT refuted by TLC" % (tag, what))
            mc_info.append({"config": tag, "counter_model": what, "refuted_by": r.violated, "states": r.distinct})
        if fam.get("inductive"):
            inductive(run, *fam["inductive"][run.tier], mc_info)
        plans = fam["plans"](cases, run)
    else:
        plans = fam["replay_plan"](replay, run)
    events = []
    for name, plan, env_extra, race in plans:
        vh = build_harness(run, race=race)
        path = run_harness(run, vh, fam["driver"], plan, fam["driver"] + "-" + name, env_extra=env_extra,
                           seed=plan.pop("_seed", None))
        evs = read_ndjson(path)
        for ev in evs:
            ev["_src"] = name
        events.extend(evs)
    clean = [{k: v for k, v in ev.items() if not k.startswith("_")} for ev in events]
    split = fam.get("split") or (lambda evs, n: chunk(evs, n))
    shards = split(clean, NCPU)
    mismatches, consumed = validate_shards(run, fam["trace_module"], shards, reg_names=fam["reg_names"],
                                           const=fam.get("trace_const", ""))
    for ev, mis in mismatches:
        clause = mis["clause"]
        if clause.split(".")[0] != run.prop:
            run.other[clause] = run.other.get(clause, 0) + 1
            continue
        hit = None
        for k in known:
            fn = fam.get("signatures", {}).get(k["id"])
            if fn and k["property"] == run.prop and fn(ev, mis):
                hit = k
                break
        if hit:
            n, _ = run.known.get(hit["id"], (0, hit["summary"]))
            run.known[hit["id"]] = (n + 1, hit["summary"])
            continue
        if any(c == clause for c, _, _ in run.violations):
            run.extra_violations = getattr(run, "extra_violations", 0) + 1
            continue      # one replay file per violated clause (first witness)
        payload = {"family": fam["name"], "property": run.prop, "clause": clause, "event": ev, "mismatch": mis}
        if fam.get("replay_context"):
            payload["context"] = fam["replay_context"](ev, clean)
        path = write_replay(run, clause, payload)
        run.violations.append((clause, path, json.dumps(ev)[:400]))
    samples = []
    for ev in clean:
        s = fam["sample"](ev)
        if s is not None and len(json.dumps(s)) < 3000:
            samples.append(s)
        if len(samples) >= 3:
            break
    cov = {
        "evaluations": run.cov.get(fam["eval_counter"], 0),
        "distinct_nontrivial": run.cov.get(fam["nontrivial_counter"], 0),
        "rule": fam["rule"],
        "samples": samples,
        "traces_validated_against_impl": fam["count_traces"](clean) if fam.get("count_traces") else len(clean),
        "exhaustive": False,
        "mc": mc_info,
        "events_consumed_by_trace_spec": consumed,
        "trace_counters": dict(run.cov),
        "explanation": fam.get("explanation", ""),
    }
    if fam.get("extra_cov"):
        cov.update(fam["extra_cov"](clean, cases))
    return cov

#!/usr/bin/env python3
"""debug helper: show MISMATCH lines of a TLC run next to the trace lines they refer to"""
import json, sys
trace=[json.loads(l) for l in open(sys.argv[1])]
want=sys.argv[3] if len(sys.argv)>3 else None
limit=int(sys.argv[4]) if len(sys.argv)>4 else 5
n=0
for line in open(sys.argv[2]):
    line=line.strip()
    if not line.startswith('"MISMATCH'): continue
    m=json.loads(json.loads(line)[9:])
    if want and m['clause']!=want: continue
    ev=trace[m['line']-1]
    # find table
    t=None
    for k in range(m['line']-1,-1,-1):
        if trace[k]['e']=='table': t=trace[k]; break
    print('=== ',m)
    print('TABLE', json.dumps(t['services']))
    if ev['e']=='req':
        print('REQ', json.dumps(ev['req']))
        for i,o in enumerate(ev['outs']):
            vs=o['vs']; o2=dict(o); o2['vs']=vs[:4]
            print('  OUT',i+1,json.dumps(o2))
    else:
        print('EV', json.dumps(ev))
    n+=1
    if n>=limit: break

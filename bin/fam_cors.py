"""C08, C09: CORS filter"""
from vlib import *

MC = """SPECIFICATION Spec
CONSTANTS
  Tier = "%s"
  MaxReq = %d
  PointerReceiver = %s
  EchoAllLines = %s
INVARIANTS Refines OriginReadingsAgree Export
CHECK_DEADLOCK FALSE
"""


def plans(cases, run):
    n, per = {"quick": (400, 40), "thorough": (6000, 60)}[run.tier]
    # beyond the MC pool: a plain handler registered with HandleWithFilter before the filter was installed, and
    # requested headers spread over two field lines
    extra = []
    for origin in ("http://a.com", "https://shop.example.com", "http://evil.test"):
        extra.append({"m": "GET", "origin": origin, "acrm": "", "acrh": "", "acrh2": "", "url": "/plain/x"})
        extra.append({"m": "OPTIONS", "origin": origin, "acrm": "GET", "acrh": "", "acrh2": "", "url": "/plain/x"})
        extra.append({"m": "OPTIONS", "origin": origin, "acrm": "GET", "acrh": "X-A", "acrh2": "X-Secret", "url": "/u1"})
        extra.append({"m": "OPTIONS", "origin": origin, "acrm": "GET", "acrh": "X-A", "acrh2": "x-a, X-B", "url": "/u2"})
    for rq in run.pool:
        rq.setdefault("acrh2", "")
    return [("mc", {"cfgs": cases, "pool": run.pool + extra, "random": 0, "shuffle": True, "_seed": run.seed * 1000 + 1}, None, False),
            ("rnd", {"cfgs": [], "pool": [], "random": n, "reqsPer": per, "conc": {"quick": 400, "thorough": 5000}[run.tier],
                     "_seed": run.seed * 1000 + 2}, None, False)]


def replay_plan(rp, run):
    if rp["context"].get("conc"):
        return [("replay", {"cfgs": [], "pool": [], "random": 0, "conc": rp["context"]["conc"]}, None, False)]
    return [("replay", {"cfgs": [rp["context"]["cfg"]], "pool": rp["context"]["reqs"], "random": 0,
                        "stacked": bool(rp["context"].get("stacked"))}, None, False)]


def context(ev, events):
    # the configuration and every request of that logical trace up to the failing one
    idx = next((i for i, e in enumerate(events) if e is ev), None)
    if idx is None:
        idx = next(i for i, e in enumerate(events) if e == ev)
    start = max(i for i in range(idx + 1) if events[i]["e"] == "cfg")
    seq = events[start + 1:idx + 1]
    if events[start].get("toggled"):
        # the predicate was switched in mid-sequence: the whole sequence, with the switch as a marker request
        first = max(i for i in range(start) if events[i]["e"] == "cfg")
        reqs = [e["req"] for e in events[first + 1:start] if "req" in e] + [{"m": "TOGGLE", "origin": "", "acrm": "", "acrh": "", "url": ""}] + \
               [e["req"] for e in seq if "req" in e]
        return {"cfg": dict(events[first]["cfg"], pred="toggle"), "reqs": reqs}
    if events[start].get("toggle"):
        return {"cfg": dict(events[start]["cfg"], pred="toggle"), "reqs": [e["req"] for e in seq if "req" in e] +
                [{"m": "TOGGLE", "origin": "", "acrm": "", "acrh": "", "url": ""}]}
    if ev.get("conc"):
        return {"cfg": events[start]["cfg"], "conc": 2000, "reqs": []}
    if ev["e"] == "cstack":
        return {"cfg": events[start]["cfg"], "stacked": True,
                "reqs": [{"m": "GET", "origin": e["origin"], "acrm": "", "acrh": "", "url": "/u1"} for e in seq if e["e"] == "cstack"]}
    return {"cfg": events[start]["cfg"], "reqs": [e["req"] for e in seq if "req" in e]}


RULES = {
    "C08": ("judged", "disallowed",
            "cases = (filter configuration, request): every configuration of MC_Cors with the whole request pool (every Origin "
            "variant x method x requested method x requested headers x URL) in pool order and in a seeded shuffled order on one "
            "filter instance, plus random configurations with origins derived from list entries by edit operations; every "
            "request also goes to a twin container without the filter. Non-trivial = requests carrying an Origin that the "
            "configuration does not allow (near misses of allowed entries), counted by the trace spec."),
    "C09": ("judged", "preflights",
            "cases as for C08. Non-trivial = preflight requests (OPTIONS, allowed origin, Access-Control-Request-Method), "
            "granted and refused, counted by the trace spec (registers refused / granted are in trace_counters)."),
}


def fam(run):
    ev_c, nt_c, rule = RULES[run.prop]
    return {
        "name": "cors",
        "mc": {"quick": [("MC_Cors", MC % ("quick", 2, "FALSE", "FALSE"), "MC_Cors-quick")],
               "thorough": [("MC_Cors", MC % ("thorough", 2, "FALSE", "FALSE"), "MC_Cors-thorough")]},
        "mc_must_violate": {t: [("MC_Cors", MC % ("quick", 2, "TRUE", "FALSE"), "MC_Cors-pointer-receiver",
                                 "filter with a pointer receiver: computed methods persist on the filter object"),
                                ("MC_Cors", MC % ("quick", 2, "FALSE", "TRUE"), "MC_Cors-echo-all-lines",
                                 "requested headers validated on the first field line, Allow-Headers echoes every line")]
                            for t in ("quick", "thorough")},
        "driver": "cors", "plans": plans, "replay_plan": replay_plan, "replay_context": context,
        "trace_module": "CorsTrace", "trace_const": "CONSTANTS PointerReceiver = FALSE\n  EchoAllLines = FALSE\n",
        "reg_names": ["line", "judged", "disallowed", "allowedOrigins", "preflights", "refused", "granted"],
        "eval_counter": ev_c, "nontrivial_counter": nt_c, "rule": rule,
        "split": shards_by_group("cfg"),
        "count_traces": lambda evs: sum(1 for e in evs if e["e"] == "cfg"),
        "assumptions": ["the predicate catalogue (suffix .example.com / always / never) is case-insensitive; the case-sensitive predicate 'exactlc' is only configured next to a non-empty list (with an empty list the filter lower-cases the origin before asking: left open)",
                        "a second Access-Control-Request-Headers field line: refusal is demanded for the first line, nothing that is not allowed may be granted",
                        "handlers and later filters add no Access-Control-* header themselves",
                        "routable methods per URL are those of the harness's fixed route table (/u1: GET; /u2: GET, PUT; /u3: none)"],
        "sample": lambda ev: ev if ev.get("e") == "creq" and ev["req"]["origin"] else None,
        "signatures": {},
        "explanation": "MC_Cors explores every (configuration, stored methods) state; in each state every pool request is answered "
                       "by the implementation-shaped filter and judged by all C08/C09 clauses; every configuration is replayed "
                       "on the real filter with the whole pool in two orders; the pointer-receiver counter-model is refuted.",
    }


def check(run, replay=None):
    return simple_family(run, fam(run), replay)

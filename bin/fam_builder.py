"""Declaration history (spec/Builder.tla): how calls on a WebService and its RouteBuilders become the routes the
routers see.  Runs as a stage of C01, C02, C05 and C06 (clauses C01.decl, C05.decl, C06.decl and the routing /
negotiation clauses of the probes)."""
from vlib import *

MC = """SPECIFICATION Spec
CONSTANTS
  MaxOps = %d
  LazyDefaults = %s
  DefaultsAppend = %s
INVARIANTS Refines OwnDeclarationWins Export
PROPERTIES RoutesImmutable
VIEW View
CHECK_DEADLOCK FALSE
"""
F, T = "FALSE", "TRUE"


def plans(cases, run):
    n = {"quick": 250, "thorough": 6000}[run.tier]
    return [("mc", {"cases": [{"ops": c["ops"]} for c in cases], "random": 0}, None, False),
            ("rnd", {"cases": [], "random": n, "_seed": run.seed * 1000 + 7}, None, False)]


def _ctx(ev, events):
    # the API calls of the history the event belongs to
    idx = None
    for j, e in enumerate(events):
        if e is ev:
            idx = j
            break
    start = idx
    while start > 0 and events[start]["e"] != "bcase":
        start -= 1
    end = start + 1
    ops = []
    while end < len(events) and events[end]["e"] != "bcase":
        if events[end]["e"] == "bop":
            ops.append({k: events[end][k] for k in ("op", "b", "m", "v")})
        end += 1
    return {"ops": ops}


FAM = {
    "name": "builder",
    "mc": {"quick": [("MC_Builder", MC % (5, F, F), "MC_Builder-5")],
           "thorough": [("MC_Builder", MC % (6, F, F), "MC_Builder-6")]},
    "mc_must_violate": {t: [("MC_Builder", MC % (5, T, F), "MC_Builder-LazyDefaults",
                             "a route without Produces of its own looks the WebService default up when it is used"),
                            ("MC_Builder", MC % (5, F, T), "MC_Builder-DefaultsAppend",
                             "copyDefaults appends the WebService default to the route's own list")]
                        for t in ("quick", "thorough")},
    "driver": "builder", "plans": plans,
    "replay_plan": lambda rp, run: [("replay", {"cases": [{"ops": rp["context"]["ops"]}], "random": 0}, None, False)],
    "replay_context": _ctx,
    "trace_module": "BuilderTrace",
    "reg_names": ["line", "calls", "inherited", "probes", "histories", "filtered"],
    "eval_counter": "probes", "nontrivial_counter": "inherited",
    "split": shards_by_group("bcase"),
    "count_traces": lambda evs: sum(1 for e in evs if e["e"] == "bcase"),
    "rule": "histories = sequences of API calls on one WebService (Path, Produces, Consumes, Filter) and up to three RouteBuilders "
            "(Method+Path+To, Path, Produces, Consumes, Filter, WebService.Route): one per distinct state of MC_Builder reached by a "
            "Route() call, plus seeded random histories of 6-17 calls; after every call WebService.Routes() is compared with the "
            "specification's state, then every registered route is probed through Dispatch under both routers with 9 "
            "Content-Type x Accept combinations. Non-trivial = registrations that inherit a WebService default.",
    "assumptions": ["WebService.Path is called before the first RouteBuilder is made (documented usage)",
                    "a RouteBuilder is registered again only after its path was changed (no duplicate method+path)",
                    "whether a builder remembers an inherited default at a later registration is left open (both accepted)"],
    "sample": lambda ev: ev if ev.get("e") == "bprobe" and ev["out"]["k"] == "route" and ev["fl"] else None,
    "signatures": {},
    "explanation": "Builder.tla is the state machine of declarations; MC_Builder explores it exhaustively (Refines, OwnDeclarationWins, "
                   "RoutesImmutable; two counter-models refuted); BuilderTrace takes the same steps as the real API calls and judges "
                   "WebService.Routes() after each, and the probes by Layer A of Routing against the logged declarations.",
}


def stage(run):
    return sub_stage(run, FAM)


def check(run, replay=None):
    return simple_family(run, FAM, replay)

"""Routing family: C01 C02 C03 C04 C14 C17 C18.
pipeline: TLC exhaustive (MC_Routing: theorems of Layer A, Layer B inside Layer A, case
export) -> replay of every exported case + seeded random tables on the real routers (Go
harness) -> TLC trace validation (RoutingTrace) -> classification -> evidence"""
import json
from vlib import *

MC_CFG_T = """SPECIFICATION Spec
CONSTANTS
  Mode = "%(mode)s"
  Tier = "%(tier)s"
  SuffixChecked = %(SuffixChecked)s
  RootRegexChecked = %(RootRegexChecked)s
  RootSuffixChecked = %(RootSuffixChecked)s
  OptionsSelectedOnly = %(OptionsSelectedOnly)s
  OptionsViaRouter = %(OptionsViaRouter)s
INVARIANTS Check OptionsInv
CHECK_DEADLOCK FALSE
"""


def mc_cfg(mode, tier, **legacy):
    """configuration of MC_Routing; every Layer B constant is TRUE (the repaired code) unless named as legacy"""
    consts = dict(SuffixChecked="TRUE", RootRegexChecked="TRUE", RootSuffixChecked="TRUE", OptionsSelectedOnly="TRUE", OptionsViaRouter="TRUE")
    for k in legacy:
        consts[k] = "FALSE"
    return MC_CFG_T % dict(consts, mode=mode, tier=tier)


# clause prefix -> property
OWNER = {"C01": "C01", "C02": "C02", "C03": "C03", "C04": "C04", "C14": "C14", "C17": "C17", "C18": "C18"}

PROPS = {
    "C01": dict(modes={"quick": [("path", "quick"), ("regexpos", "quick"), ("media2", "quick"), ("sufroot", "quick"), ("rootvar", "quick")],
                       "thorough": [("path", "thorough"), ("headers", "quick"), ("regexpos", "thorough"), ("media2", "quick")]},
                plan=dict(perms=0, slash=False, entries=["D", "S"], conc=8),
                random={"quick": [("mixed", 220, 20), ("headers", 80, 24), ("headers", 40, 24, {"defReqCT": "application/json"})],
                        "thorough": [("mixed", 2500, 30), ("headers", 1000, 40), ("headers", 300, 40, {"defReqCT": "application/json"})]},
                # the package-level default request content type is for reading entities, not for routing
                twins=[dict(name="defct", over={"defReqCT": "application/json"}, modes={"media2", "headers"})],
                counter="judged",
                rule="cases = (route table, request) pairs: every table of MC_Routing's pools with requests derived "
                     "from its templates (match and near-miss values per token), plus seeded random tables with "
                     "requests mutated from matching ones; each is sent through Dispatch and ServeHTTP of real "
                     "containers under both routers, and all requests of a table once more from 8 goroutines at once. Non-trivial = distinct (table, request, outcome) in which a "
                     "route function ran (the property's antecedent)."),
    "C02": dict(modes={"quick": [("headers", "quick"), ("roots", "quick"), ("regexpos", "quick"), ("media2", "quick"), ("sufroot", "quick")],
                       "thorough": [("headers", "thorough"), ("roots", "thorough"), ("path", "quick"), ("regexpos", "thorough"), ("media2", "quick"), ("sufroot", "quick")]},
                plan=dict(perms=0, slash=False, entries=["D", "S"]),
                random={"quick": [("headers", 150, 24), ("mixed", 150, 20)],
                        "thorough": [("headers", 2000, 40), ("mixed", 2000, 30)]},
                twins=[dict(name="tracing", over={"tracing": True})],
                counter="judged",
                rule="cases as for C01, from the header pools (method x Consumes x Produces x condition x body) and "
                     "the two-service root pools; every case is also run with trace logging on. Non-trivial = "
                     "distinct (table, request, outcome) whose outcome is not a plain 404 (a route ran, or "
                     "405/415/406 was chosen)."),
    "C03": dict(modes={"quick": [("path", "quick"), ("roots", "quick"), ("order3", "quick"), ("roots4", "quick"), ("media", "quick")],
                       "thorough": [("path", "thorough"), ("roots", "thorough"), ("order3", "quick"), ("roots4", "quick"), ("media", "quick")]},
                plan=dict(perms=3, slash=False, entries=["D"], late=True),
                random={"quick": [("mixed", 150, 16), ("common", 70, 16)], "thorough": [("mixed", 2000, 30), ("common", 800, 24)]},
                # the root pools once more through ServeHTTP (the ServeMux registrations depend on the Add order)
                twins=[dict(name="servehttp", over={"entries": ["S"]}, modes={"roots", "roots4"})],
                counter="dominance",
                rule="every table is built in 4 registration orders (given, reversed, 2 seeded shuffles) per router as "
                     "separate real containers; outcomes are compared across orders and judged against dominance. "
                     "Non-trivial = observations in which >= 2 fully eligible routes (or >= 2 claiming services) "
                     "competed, counted by the trace spec."),
    "C04": dict(modes={"quick": [("path", "quick"), ("regexpos", "quick"), ("rootvar", "quick")],
                       "thorough": [("path", "thorough"), ("regexpos", "thorough"), ("rootvar", "quick")]},
                plan=dict(perms=0, slash=True, entries=["D"], conc=8),
                random={"quick": [("mixed", 220, 20)], "thorough": [("mixed", 3000, 30)]},
                counter="params",
                rule="cases as for C01; Request.PathParameters() is read inside the invoked handler. Non-trivial = "
                     "judged route outcomes that bind at least one parameter, counted by the trace spec."),
    "C14": dict(modes={"quick": [("path", "quick"), ("roots", "quick")], "thorough": [("path", "thorough"), ("roots", "thorough"), ("headers", "quick")]},
                plan=dict(perms=0, slash=True, entries=["D"], late=True, slashOptions=True),
                random={"quick": [("slash", 220, 20)], "thorough": [("slash", 2500, 30), ("headers", 600, 30)]},
                # through ServeHTTP, after a WebService sharing the ServeMux prefix was added first and removed again
                twins=[dict(name="decoy", over={"entries": ["S"], "decoy": True, "late": False, "slashOptions": False}, modes={"roots"})],
                counter="slashTwins",
                rule="every request path p without trailing slash is sent as p and as p/ to the same real container; "
                     "Non-trivial = request pairs that qualify (>= 1 non-empty segment; RouterJSR311 only on tables "
                     "without tail wildcard), counted by the trace spec."),
    "C18": dict(modes={"quick": [("agree", "quick")], "thorough": [("agree", "thorough")]},
                plan=dict(perms=0, slash=True, entries=["D"], late=True),
                random={"quick": [("common", 400, 24)], "thorough": [("common", 3000, 30)]},
                counter="routerTwins",
                rule="every request is sent to twin real containers differing only in Container.Router; Non-trivial = "
                     "requests on common-fragment tables observed under both routers, counted by the trace spec."),
    "C17": dict(modes={"quick": [("agree", "quick")], "thorough": [("agree", "thorough")]},
                plan=dict(perms=0, slash=False, entries=["D"]),
                random={"quick": [("allow", 300, 12), ("mixed", 120, 10)], "thorough": [("allow", 2000, 16), ("mixed", 800, 16)]},
                options=True,
                counter="probes",
                rule="for every URL of every table one probe request per method (7 methods) on a plain container and "
                     "on a twin with Container.OPTIONSFilter; Allow of every 405 and the filter's Allow / "
                     "Access-Control-Allow-Methods are compared as sets with the probe statuses. Non-trivial = "
                     "probed (table, router, URL) triples."),
}

ASSUMPTIONS = [
    "regex variables come from a fixed slash-free catalogue whose semantics is defined in TLA+ (Templates.tla)",
    "tail wildcards and custom verbs only on the last token; variable names distinct within a full template",
    "bodies have a known length (Content-Length consistent with the body)",
    "If-conditions are pure functions of a request header",
    "readings the properties leave open (empty segments, partial regex matches, q=0, type wildcards, empty tail) "
    "are accepted either way: Must/May in Templates.tla and Mime.tla",
    "a ServeHTTP observation that is a net/http ServeMux redirect (301) is not judged when Registry's ServeMux model of the documented "
    "pattern scheme (fixed part of each root path, p and p/, nothing after a service on /, in the logged Add order) predicts it, or the "
    "path is not clean; any other redirect is a mismatch (C02.redirect, C03.order)",
    "TLC, the Json community module, Go's net/http request parser are trusted",
]


# ---------------- known-finding signatures (classification of real-code mismatches) ----------------

def toks(path):
    t = path.strip("/")
    return t.split("/") if t else []


def full_tokens(root, p):
    return toks(root.rstrip("/") + "/" + p.lstrip("/"))


def is_var(tok):
    return "{" in tok


def crossing(t1, t2):
    if len(t1) != len(t2):
        return False
    a = any(is_var(x) and not is_var(y) for x, y in zip(t1, t2))
    b = any(is_var(y) and not is_var(x) for x, y in zip(t1, t2))
    return a and b


def sig_c18_crossing(ev, mis, table):
    """both routers selected a route of the same service and the two templates are crossing
    (each has a literal where the other has a variable)"""
    if mis["clause"] != "C18.agree":
        return False
    outs = [o for o in ev["outs"] if o["k"] == "route"]
    routes = {(o["ws"], o["rt"]) for o in outs}
    if len(routes) != 2 or len({w for w, _ in routes}) != 1:
        return False
    (w, r1), (_, r2) = sorted(routes)
    svc = table["services"][w - 1]
    t1 = full_tokens(svc["root"], svc["routes"][r1 - 1]["p"])
    t2 = full_tokens(svc["root"], svc["routes"][r2 - 1]["p"])
    # ... with different numbers of literal characters (with equal numbers both routers fall back to the
    # same tie-break, the greater Path, and agree)
    lit = lambda ts: sum(len(x) for x in ts if not is_var(x))
    return crossing(t1, t2) and lit(t1) != lit(t2)


def sig_c17_nested(ev, mis, table):
    """OPTIONS filter lists methods of a WebService whose literal root is a token-prefix of (or
    equal up to nesting with) the root of the service dispatch selects"""
    if mis["clause"] != "C17.options" or ev.get("e") != "probe":
        return False
    url = toks(ev["path"])
    claiming = [s for s in table["services"] if toks(s["root"]) == url[:len(toks(s["root"]))]]
    if len(claiming) < 2:
        return False
    routable = {p[0] for p in ev["probes"] if p[1] not in (404, 405)}
    listed = set(ev["opt"]["allow"]) | set(ev["opt"]["acam"])
    surplus = listed - routable
    if not surplus or (routable - listed):
        return False
    allm = set()
    for s in claiming:
        for r in s["routes"]:
            allm.add(r["m"])
    return surplus <= allm


def curly_score(root_toks):
    n = len(root_toks)
    return sum(1 if is_var(t) else (n - i) * 10 for i, t in enumerate(root_toks))


def sig_c03_equal_score_roots(ev, mis, table):
    """CurlyRouter, two registration orders select different WebServices whose roots both claim the URL, are
    crossing (different shapes) and have the same CurlyRouter score"""
    if mis["clause"] != "C03.order":
        return False
    x, y = mis["variant"]
    if x[0] != "curly" or y[0] != "curly":
        return False
    outs = [o for o in ev["outs"] if o["k"] in ("route", "err")]
    def svc_of(v):
        for o in outs:
            if v in o["vs"]:
                return o
        return None
    # the services selected under the two orders: from route outcomes, or (error outcomes) any two claiming roots
    url = toks(ev["req"]["path"])
    claiming = []
    for s in table["services"]:
        rt = toks(s["root"])
        if len(rt) <= len(url) and all(is_var(t) or t == u for t, u in zip(rt, url)):
            claiming.append(rt)
    pairs = [(a, b) for i, a in enumerate(claiming) for b in claiming[i + 1:]]
    return any(len(a) == len(b) and crossing(a, b) and curly_score(a) == curly_score(b) for a, b in pairs)


def sig_c04_jsr_groups(ev, mis, table):
    """RouterJSR311; the invoked route's full template has a regex variable whose expression contains a
    capturing group, followed by another variable (whose value is taken from the wrong group)"""
    if mis["clause"] not in ("C04.exact", "C04.roundtrip") or mis["variant"][0] != "jsr311":
        return False
    o = ev["outs"][mis["out"] - 1]
    if o["k"] != "route":
        return False
    ts = toks(o["selp"])
    segs = toks(ev["req"]["path"])
    bound = {p[0]: p[1] for p in o["params"]}
    for i, t in enumerate(ts):
        if t.startswith("{") and ":" in t and "(" in t.split(":", 1)[1]:
            # the variable with the group of its own is bound to its segment (its expression as a whole is the first
            # group); it is a LATER variable whose value comes from the wrong group
            name = t[1:].split(":", 1)[0]
            if i < len(segs) and bound.get(name) == segs[i] and any(is_var(x) for x in ts[i + 1:]):
                return True
            return False
    return False


SIGNATURES = {"c04-jsr311-nested-capture-groups": sig_c04_jsr_groups, "c18-crossing-templates": sig_c18_crossing, "c17-nested-roots-options": sig_c17_nested,
              "c03-equal-score-crossing-roots": sig_c03_equal_score_roots}


def classify(run, ev, mis, table, known):
    for k in known:
        fn = SIGNATURES.get(k["id"])
        if fn and k["property"] == run.prop and fn(ev, mis, table):
            return k
    return None


# ---------------- pipeline ----------------

def shards_by_table(events, n):
    groups, cur = [], []
    for ev in events:
        if ev["e"] == "table" and cur:
            groups.append(cur)
            cur = []
        cur.append(ev)
    if cur:
        groups.append(cur)
    # balance by event count
    shards = [[] for _ in range(n)]
    sizes = [0] * n
    for g in sorted(groups, key=len, reverse=True):
        i = sizes.index(min(sizes))
        shards[i].extend(g)
        sizes[i] += len(g)
    return shards


def table_of(events, ev_index_map, ev):
    return ev_index_map[ev["tid"]]


def check(run, replay=None):
    cfgp = PROPS[run.prop]
    tier = run.tier
    vh = build_harness(run)
    known = load_known()
    tables = []
    drift = 0
    compared = 0
    drift_samples = []
    preds = {}
    mc_exhaustive = []
    if replay is None:
        modes = cfgp["modes"][tier]
        per = max(4, NCPU // max(1, min(len(modes), 3)))

        def run_mode(mm):
            mode, mtier = mm
            return mm, tlc(run, "MC_Routing", mc_cfg(mode, mtier), workers=per, heap="6g",
                           tag="MC_Routing-%s-%s" % (mode, mtier), timeout=7200)

        # vacuity control: counter-models (earlier implementations of computeAllowedMethods) TLC must refute
        counters = []
        if run.prop == "C17":
            counters.append(("agree", dict(OptionsSelectedOnly=1, OptionsViaRouter=1), "OptionsInv", "MC_Routing-agree-legacy-options",
                             "computeAllowedMethods walks all WebServices (legacy)"))
        if run.prop in ("C14", "C17"):
            counters.append(("path", dict(OptionsViaRouter=1), "OptionsInv", "MC_Routing-path-regex-walk",
                             "computeAllowedMethods matches with the templates' regular expressions"))
        if run.prop in ("C01", "C02"):
            # the three repairs of CurlyRouter's matching: each earlier behaviour is outside Layer A
            counters.append(("sufroot", dict(SuffixChecked=1), "Check", "MC_Routing-legacy-suffix", "a {v}suffix route token admits every segment (legacy)"))
            counters.append(("sufroot", dict(RootSuffixChecked=1), "Check", "MC_Routing-legacy-root-suffix",
                             "a {v}suffix token of a root path admits every segment (legacy)"))
            counters.append(("sufroot", dict(RootRegexChecked=1), "Check", "MC_Routing-legacy-root-regex",
                             "the regular expression of a root path parameter is not evaluated (legacy)"))

        def run_counter(cm):
            mode, legacy, want, tag, what = cm
            return cm, tlc(run, "MC_Routing", mc_cfg(mode, "quick", **legacy), workers=per, heap="6g", tag=tag, expect_violation=True)

        # the pools are independent models: explored side by side
        with cf.ThreadPoolExecutor(max_workers=3) as ex:
            fut_c = [ex.submit(run_counter, cm) for cm in counters]
            results = list(ex.map(run_mode, modes))
            for f in fut_c:
                (mode, legacy, want, tag, what), r = f.result()
                if r.violated != want:
                    raise Infra("vacuity: the counter-model '%s' was NOT refuted by %s (%s)" % (what, want, r.violated))
                mc_exhaustive.append({"counter_model": what, "refuted_by": r.violated})
        for (mode, mtier), r in results:
            if r.violated:
                raise Infra("design check failed: MC_Routing (%s/%s) violates %s - the specification itself is "
                            "inconsistent (independent of /repo)\n%s" % (mode, mtier, r.violated, "\n".join(r.lines[-60:])))
            mc_exhaustive.append({"mode": mode, "tier": mtier, "tables": len(r.cases), "states": r.distinct})
            for c in r.cases:
                t = {"services": c["services"], "reqs": c["reqs"], "options": bool(cfgp.get("options")), "_mode": mode}
                tables.append(t)
                preds[len(tables)] = (c["pred"], c.get("predj"))
    else:
        tables = [replay["table"]]
    plan = dict(cfgp["plan"])
    strip = lambda t: {k: v for k, v in t.items() if not k.startswith("_")}
    plan.update(tables=[strip(t) for t in tables], random=0, profile="mixed", reqsPer=0)
    traces = []
    overs = {}
    if replay is not None:
        # the run-time switches of the source trace (tracing, entry points, decoy, ...)
        plan.update(replay.get("over", {}))
    traces.append(("mc", run_harness(run, vh, "route", plan, "route-mc")))
    if replay is None:
        for i, rnd in enumerate(cfgp["random"][tier]):
            profile, n, per = rnd[:3]
            p2 = dict(cfgp["plan"])
            p2.update(tables=[], random=n, profile=profile, reqsPer=per)
            if len(rnd) > 3:
                p2.update(rnd[3])
                overs["rnd%d-%s" % (i, profile)] = rnd[3]
            if cfgp.get("options"):
                p2["optionsAll"] = True
            traces.append(("rnd%d-%s" % (i, profile), run_harness(run, vh, "route", p2, "route-rnd%d" % i, seed=run.seed * 1000 + i)))
        for twin in cfgp.get("twins", []):
            sub = [strip(t) for t in tables if twin.get("modes") is None or t.get("_mode") in twin["modes"]]
            if not sub:
                continue
            p3 = dict(plan)
            p3.update(twin["over"])
            p3["tables"] = sub
            overs["mc-" + twin["name"]] = twin["over"]
            traces.append(("mc-" + twin["name"], run_harness(run, vh, "route", p3, "route-mc-" + twin["name"])))
    all_events = []
    tid_base = 0
    tables_by_tid = {}
    for name, path in traces:
        evs = read_ndjson(path)
        mx = 0
        for ev in evs:
            mx = max(mx, ev["tid"])
            if name == "mc" and ev["e"] == "req":
                ev["_mc_tid"] = ev["tid"]
            ev["tid"] += tid_base
            ev["_src"] = name
            if ev["e"] == "table":
                tables_by_tid[ev["tid"]] = ev
        tid_base += mx
        all_events.extend(evs)
    # model drift: Layer B's prediction vs. the real CurlyRouter (perm 0, no slash, Dispatch)
    if preds:
        req_no = {}
        for ev in all_events:
            if ev["_src"] != "mc":
                continue
            if ev["e"] == "table":
                req_no[ev["tid"]] = 0
            if ev["e"] == "req":
                tid = ev["_mc_tid"]
                # requests keep their order, but unparsable ones are skipped by the harness: match by content
                tcase = tables[tid - 1]
                if "_index" not in tcase:
                    tcase["_index"] = {json.dumps([rq[k] for k in ("m", "path", "ct", "acc", "clen", "clh", "conds")]): i
                                       for i, rq in enumerate(tcase["reqs"])}
                idx = tcase["_index"].get(json.dumps([ev["req"][k] for k in ("m", "path", "ct", "acc", "clen", "clh", "conds")]))
                if idx is None:
                    continue
                for router, plist in (("curly", preds[tid][0]), ("jsr311", preds[tid][1])):
                    if not plist:
                        continue
                    pred = {tuple(x) for x in plist[idx]}
                    for o in ev["outs"]:
                        if [router, 0, 0, "D"] in o["vs"]:
                            got = (o["k"], o["ws"], o["rt"], 200 if o["k"] == "route" else o["st"])
                            compared += 1
                            if pred and got not in pred:
                                drift += 1
                                if len(drift_samples) < 3:
                                    drift_samples.append({"router": router, "table": tcase["services"], "req": ev["req"], "real": got, "layerB": sorted(pred)})
    clean = [{k: v for k, v in ev.items() if not k.startswith("_")} for ev in all_events]
    shards = shards_by_table(clean, NCPU)
    mismatches, consumed = validate_shards(run, "RoutingTrace", shards,
                                           reg_names=["line", "judged", "dominance", "params", "slashTwins", "routerTwins", "orderGroups", "probes"])
    counters = {}
    for rr in run.tlc_runs:
        pass
    # classification
    for ev, mis in mismatches:
        clause = mis["clause"]
        owner = clause.split(".")[0]
        if owner != run.prop:
            run.other[clause] = run.other.get(clause, 0) + 1
            continue
        table = tables_by_tid[ev["tid"]]
        k = classify(run, ev, mis, table, known)
        if k:
            n, _ = run.known.get(k["id"], (0, k["summary"]))
            run.known[k["id"]] = (n + 1, k["summary"])
            continue
        if any(c == clause for c, _, _ in run.violations):
            continue      # one replay file per violated clause (first witness)
        payload = {"family": "routing", "property": run.prop, "clause": clause,
                   "table": {"services": table["services"], "reqs": [ev["req"]] if ev["e"] == "req" else
                             [{"m": "GET", "path": ev["path"], "ct": "", "acc": "", "clen": 0, "clh": "", "conds": []}],
                             "routers": table.get("routers", []), "options": ev["e"] == "probe", "fixed": True,
                             "withFilter": table.get("withFilter", False), "flavour": table.get("flavour", 1),
                             "switched": table.get("switched", False), "swap": table.get("swap", False),
                             "defRoot": table.get("defRoot", False)},
                   "plan": cfgp["plan"], "over": overs.get(table.get("_src"), {}), "observed": ev.get("outs", ev), "mismatch": mis}
        path = write_replay(run, clause, payload)
        if ev["e"] == "req":
            text = "%s %s -> %s" % (ev["req"]["m"], ev["req"]["path"], json.dumps(ev["outs"][mis["out"] - 1])[:300])
        else:
            text = "probe %s %s" % (ev["path"], json.dumps(ev.get("opt", [ev.get("allow"), ev.get("sallow")]))[:200])
        run.violations.append((clause, path, text))
    # statistics
    nreq = sum(1 for ev in all_events if ev["e"] == "req")
    nprobe = sum(1 for ev in all_events if ev["e"] == "probe")
    ntables = sum(1 for ev in all_events if ev["e"] == "table")
    judged = 0
    nt = set()
    for ev in all_events:
        if ev["e"] != "req":
            continue
        for o in ev["outs"]:
            if o["k"] == "redirect":
                continue
            judged += len({(v[0], v[2]) for v in o["vs"]})
            key = (ev["tid"], json.dumps(ev["req"], sort_keys=True), o["k"], o["ws"], o["rt"], o["st"])
            if run.prop == "C01" and o["k"] == "route":
                nt.add(key)
            if run.prop == "C02" and not (o["k"] == "err" and o["st"] == 404):
                nt.add(key)
    totals = run.cov
    nontrivial = len(nt) if run.prop in ("C01", "C02") else totals.get(cfgp["counter"], 0)
    samples = []
    for ev in all_events:
        if ev["e"] == ("probe" if run.prop == "C17" else "req") and len(samples) < 3:
            t = tables_by_tid[ev["tid"]]
            s = {"table": t["services"]}
            if ev["e"] == "req":
                s.update(request=ev["req"], observed=[{k: o[k] for k in ("k", "ws", "rt", "params", "st", "allow", "vs")} for o in ev["outs"]][:2])
            else:
                s.update(url=ev["path"], probes=ev["probes"], options=ev["opt"])
            if len(json.dumps(s)) < 3000:
                samples.append(s)
    coverage = {
        "evaluations": judged + nprobe,
        "distinct_nontrivial": nontrivial,
        "rule": cfgp["rule"],
        "samples": samples,
        "traces_validated_against_impl": ntables,
        "exhaustive": False,
        "explanation": "exhaustive part: every table of the MC_Routing pools listed in mc_exhaustive (Layer A theorems and "
                       "Layer B refinement checked by TLC in every state, every case replayed on the real routers); "
                       "random part: seeded tables/requests. traces_validated_against_impl counts route tables "
                       "(logical traces), each built as real containers in every variant.",
        "mc_exhaustive": mc_exhaustive,
        "tables": ntables, "request_events": nreq, "probe_events": nprobe,
        "events_consumed_by_trace_spec": consumed,
        "trace_counters": totals,
        "model_drift": {"layerB_predictions_compared_with_real_code": compared, "disagreements": drift, "samples": drift_samples},
    }
    if run.prop == "C01" and replay is None:
        import fam_builder
        coverage["declaration_history"] = sub_stage(run, fam_builder.FAM)
    return finish(run, "model_checking", coverage, ASSUMPTIONS)

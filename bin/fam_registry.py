"""C11: registration state equals what a fresh container with the same content has"""
from vlib import *

MC = """SPECIFICATION Spec
CONSTANTS
  Tier = "%s"
  MaxOps = %d
  LegacyRemoveScan = %s
  LegacyRootCompare = %s
  HandlersSurviveRemove = %s
INVARIANTS %s Export
CHECK_DEADLOCK FALSE
"""
F, T = "FALSE", "TRUE"
# the model of the tree as it is now (see known_findings.json for what is still open)
CUR = dict(scan=F, rootcmp=F, survive=F)
INV_ALL = "AddNeverPanics ServicesEqual HistoryIndependent"


def mc(tier, ops, scan, rootcmp, survive, inv):
    return MC % (tier, ops, scan, rootcmp, survive, inv)


def plans(cases, run):
    n, mx = {"quick": (150, 10), "thorough": (2500, 30)}[run.tier]
    return [("mc", {"histories": cases, "random": 0}, None, False),
            ("rnd", {"histories": [], "random": n, "maxOps": mx, "_seed": run.seed * 1000 + 1}, None, False)]


def context(ev, events):
    idx = next(i for i, e in enumerate(events) if e is ev)
    start = max(i for i in range(idx + 1) if events[i]["e"] == "rhist")
    return {"ops": events[start]["ops"], "router": events[start].get("router", "curly")}


def sig_handlers_lost(ev, mis):
    """a plain handler registered before a Remove is no longer served by the history-built
    container: the fresh container answers with the handler, the history-built one does not"""
    return (mis["clause"] == "C11.history" and ev.get("entry") == "S" and ev.get("afterRemove")
            and "|h:" in ev.get("f", "") and "|h:" not in ev.get("h", ""))


def fam(run):
    inv = INV_ALL
    return {
        "name": "registry",
        "mc": {"quick": [("MC_Registry", mc("quick", 3, F, F, T, inv), "MC_Registry-quick")],
               "thorough": [("MC_Registry", mc("thorough", 4, F, F, T, inv), "MC_Registry-thorough")]},
        "mc_must_violate": {t: [("MC_Registry", mc("quick", 3, T, F, T, inv), "MC_Registry-LegacyRemoveScan",
                                 "Remove re-registers nothing unless a service sits on /"),
                                ("MC_Registry", mc("quick", 3, F, T, T, inv), "MC_Registry-LegacyRootCompare",
                                 "roots with one fixed prefix panic in Add"),
                                ("MC_Registry", mc("quick", 3, F, F, F, inv), "MC_Registry-HandlersLost",
                                 "plain handlers vanish on Remove (legacy behaviour)")]
                            for t in ("quick", "thorough")},
        "driver": "registry", "plans": plans, "replay_context": context,
        "replay_plan": lambda rp, run: [("replay", {"histories": [{"ops": rp["context"]["ops"]}], "random": 0}, None, False)],
        "trace_module": "RegistryTrace",
        "trace_const": "CONSTANTS LegacyRemoveScan = FALSE LegacyRootCompare = FALSE HandlersSurviveRemove = TRUE\n",
        "reg_names": ["line", "probes", "ops", "probesAfterRemove", "adds"],
        "eval_counter": "probes", "nontrivial_counter": "probesAfterRemove",
        "split": shards_by_group("rhist"),
        "count_traces": lambda evs: sum(1 for e in evs if e["e"] == "rhist"),
        "rule": "cases = registration histories: every sequence of MaxOps operations of MC_Registry (Add / Remove / Handle over "
                "roots sharing prefixes, differing by trailing slash or variable, with and without /) plus seeded random histories "
                "(also Route / RemoveRoute on dynamic services, both routers); after EVERY operation a fresh container is built from "
                "the same content and 23 probe URLs go through ServeHTTP and Dispatch of both. Non-trivial = probe comparisons made "
                "after at least one Remove in the history, counted by the trace spec.",
        "assumptions": ["duplicate root paths are never added (documented os.Exit); Handle patterns are never registered twice and "
                        "never collide with the mux pattern of a service root",
                        "the oracle is differential (history-built vs fresh-built real container): mux redirects cancel out",
                        "Layer A's content is recomputed by the trace spec from the logged operations and compared with the "
                        "content the harness built the fresh container from (binding)"],
        "sample": lambda ev: ev if ev.get("e") == "rprobe" and ev.get("afterRemove") else None,
        "signatures": {},
        "explanation": "MC_Registry explores every history up to MaxOps; Layer B (webServices, mux patterns, root flag) must answer "
                       "every probe at mux level like a fresh container with Layer A's content; the legacy behaviours are "
                       "counter-models TLC refutes; every complete history is replayed on real containers.",
    }


def check(run, replay=None):
    return simple_family(run, fam(run), replay)

"""C19: serving a request is a pure function of configuration and request"""
from vlib import *

MC = """SPECIFICATION Spec
CONSTANTS
  NReq = %d
  SharedParams = %s
  SharedAttrs = %s
  SharedChain = %s
  SharedCors = %s
INVARIANTS Pure NoResidue
CHECK_DEADLOCK FALSE
"""
F, T = "FALSE", "TRUE"


def plans(cases, run):
    if run.tier == "quick":
        return [("hist", {"configs": 12, "history": 300, "batches": 4, "perG": 12, "_seed": run.seed * 1000 + 1}, None, False),
                ("race", {"configs": 3, "history": 50, "batches": 4, "perG": 8, "_seed": run.seed * 1000 + 2}, {"GORACE": "halt_on_error=1 exitcode=66"}, True)]
    return [("hist", {"configs": 80, "history": 1000, "batches": 10, "perG": 30, "_seed": run.seed * 1000 + 1}, None, False),
            ("race", {"configs": 20, "history": 200, "batches": 10, "perG": 20, "_seed": run.seed * 1000 + 2}, {"GORACE": "halt_on_error=1 exitcode=66"}, True)]


def cm(i):
    flags = [F, F, F, F]
    flags[i] = T
    return MC % tuple([2] + flags)


FAM = {
    "name": "pure",
    "mc": {t: [("MC_Pure", MC % (3, F, F, F, F), "MC_Pure")] for t in ("quick", "thorough")},
    "mc_must_violate": {t: [("MC_Pure", cm(0), "MC_Pure-SharedParams", "one parameter map shared by all requests"),
                            ("MC_Pure", cm(1), "MC_Pure-SharedAttrs", "one attribute map shared by all requests"),
                            ("MC_Pure", cm(2), "MC_Pure-SharedChain", "one filter chain (index) shared by all requests"),
                            ("MC_Pure", cm(3), "MC_Pure-SharedCors", "CORS filter keeps computed methods (pointer receiver)")]
                        for t in ("quick", "thorough")},
    "driver": "pure", "plans": plans,
    "replay_plan": lambda rp, run: [("replay", {"configs": 12, "history": 300, "batches": 4, "perG": 12, "_seed": rp["seed"]}, None, False)],
    "trace_module": "PureTrace",
    "reg_names": ["line", "judged", "repeated", "concurrent", "tracing"],
    "eval_counter": "judged", "nontrivial_counter": "repeated",
    "split": shards_by_group("pcfg"),
    "count_traces": lambda evs: sum(1 for e in evs if e["e"] == "pcfg"),
    "rule": "per seeded configuration (router, 1-3 container filters, CORS with computed methods, OPTIONS filter, encoding) 16 "
            "request keys are first answered by a fresh container each; then a sequential history (second half with trace "
            "logging on) and 16-goroutine batches draw from the same keys on ONE container; part of the runs is executed by a "
            "-race build (a race report aborts the driver: exit 2 from the checker's point of view is avoided by reporting it "
            "as C19.race). Non-trivial = observations of a key at a later position than its first (history, batch, tracing), "
            "counted by the trace spec.",
    "assumptions": ["the response projection is status, all response headers, decoded body, and what the handler saw "
                    "(path parameters, rid attribute, selected route, method)",
                    "trace logging is toggled between batches, never during one (the switch is an unsynchronised package variable)"],
    "sample": lambda ev: ev if ev.get("e") == "pobs" and ev.get("phase") != "fresh" else None,
    "signatures": {},
    "replay_context": lambda ev, events: {"note": "re-run the same seed"},
    "explanation": "MC_Pure explores every interleaving of three requests in flight; the four counter-models (shared parameter map, "
                   "attribute map, chain, CORS methods) are each refuted; the real container is driven through histories and "
                   "concurrent batches and every observation is compared by TLC with the fresh-container observation of its key.",
}


def check(run, replay=None):
    if replay is not None:
        replay.setdefault("seed", run.seed * 1000 + 1)
    try:
        return simple_family(run, FAM, replay)
    except Infra as e:
        if "exit 66" in str(e) or "DATA RACE" in str(e):
            path = write_replay(run, "C19.race", {"family": "pure", "property": "C19", "clause": "C19.race", "seed": run.seed, "report": str(e)[-3000:]})
            run.violations.append(("C19.race", path, "data race reported by the Go race detector while serving concurrent requests"))
            return finish(run, "model_checking", {"evaluations": 1, "distinct_nontrivial": 0, "rule": FAM["rule"], "samples": [str(e)[-500:]],
                                                  "traces_validated_against_impl": 0}, FAM["assumptions"])
        raise

#!/usr/bin/env python3
"""regenerates /verif/MANIFEST.json from the table below (kept in one place so that the
manifest is valid at all times)"""
import json, os, subprocess
V = os.path.dirname(os.path.dirname(os.path.abspath(__file__)))

ROUTING_NOTE = ("Trusted: TLC and the Json community module, Go's net/http request parser, the harness projection "
                "(lossless re-encoding; tokenising/parsing is done by the specification). Regex variables from a fixed "
                "catalogue; readings the property leaves open are accepted either way (Must/May, DESIGN.md section 5).")

CHECKS = {
 "C01": ("TLC exhaustive small-scope model checking of the routing specification (Layer A theorems, Layer B CurlyImpl inside Layer A) "
         "+ replay of every explored case on the real routers (Dispatch, ServeHTTP, 8 goroutines at once, nested dispatch from inside a handler) "
         "+ TLC trace validation of real-code observations (RoutingTrace, clause C01.*) "
         "+ declaration-history stage: TLC exhaustive model checking of Builder.tla (MC_Builder) with one replayed API-call history per state and "
         "trace validation of WebService.Routes() after every call (BuilderTrace, clause C01.decl)",
         "Every (table, request) of the bounded pools is enumerated by TLC and replayed on real containers under both routers and "
         "both entry points; every observation of the real code - also from seeded random tables with near-miss requests - is judged "
         "by the property-level specification: a route function may only run when Admits holds (method, path May-match, Consumes, "
         "Accept, conditions) and the selected route seen by the handler is its own. Build dimensions that must not matter are varied per "
         "table (native / net/http-middleware container filter, the other router installed first, templates compiled once with the "
         "trailing-slash switch off, package default request content type set). Soundness is a universally quantified negative: "
         "exhaustive small scope + large randomised trace validation is the level that reaches it.", "6 C01", ROUTING_NOTE),
 "C02": ("same pipeline, clauses C02.total / once / status / allowset (staged 404/405/415/406 decision of Routing.tla)",
         "The staged error decision is a complete definition in Layer A; TLC checks totality/determinacy of the specification and "
         "enumerates header pools (method x Consumes x Produces x condition x body) and two-service root pools; all cases and "
         "random near-miss requests are replayed on the real code, with trace logging on and off, and judged by TLC.", "6 C02", ROUTING_NOTE),
 "C03": ("same pipeline with every table built in 4 registration orders per router, the root pools also through ServeHTTP (a ServeMux redirect "
         "that Registry's ServeMux model of the documented pattern scheme does not predict is a mismatch); clauses C03.root / route / order",
         "Dominance (literal over variable, longer root over prefix) is a relation of Layer A whose strictness and permutation "
         "invariance TLC checks; real containers are built in several registration orders and their outcomes compared and judged.",
         "6 C03", ROUTING_NOTE),
 "C04": ("same pipeline; clauses C04.exact / names / roundtrip on Request.PathParameters() read inside the invoked handler",
         "Bind is Layer A's definition (segment minus prefix/suffix/verb; tail = remaining segments); the round trip is evaluated by "
         "TLC on the logged parameters of every invoked route of the exhaustive pools and of random tables.", "6 C04", ROUTING_NOTE),
 "C14": ("same pipeline with every request sent as p and p/ to one container (Dispatch; root pools also through ServeHTTP after a decoy WebService sharing "
         "the ServeMux prefix was added and removed), the OPTIONS filter asked about p and p/ (C14.options); clause C14.pair; trailing-slash invariance is a theorem "
         "of Layer A and of Layer B's computeAllowedMethods (OptionsSlash; the regular-expression walk is a counter-model TLC refutes)",
         "TLC proves the invariance on the specification for every enumerated table/request and judges every real pair.", "6 C14", ROUTING_NOTE),
 "C17": ("TLC model checking of OptionsInv (Layer B of computeAllowedMethods - the router asked per method - lists the methods Layer A calls routable: equal on the "
         "common fragment, between the Must and May readings on every template form of the 'path' pools; the legacy walk over all WebServices and the "
         "regular-expression walk are counter-models TLC refutes) + TLC trace validation of per-method probe sets against the Allow headers of 405 responses (with and without an entity) and of the "
         "OPTIONS filter, before and after a route is added (RoutingTrace, clause C17.*, headers as frozen at the first WriteHeader), cases from MC_Routing 'agree' pools, "
         "random common-fragment tables (some with OPTIONS routes of their own) and random tables of every template form",
         "The property relates three computations of the real code; the harness probes every method for every URL on a plain and on "
         "a filtered twin container and the trace specification evaluates the set equalities and the twin equality.", "6 C17", ROUTING_NOTE),
 "C18": ("same pipeline on twin containers differing only in Container.Router, also after a route was added late or swapped for a placeholder; clause C18.agree (N-version) plus each observation judged by Layer A",
         "Common-fragment tables are enumerated exhaustively by TLC (incl. cross-instantiated requests both templates match) and "
         "generated randomly; every request runs on both real routers.", "6 C18", ROUTING_NOTE),
 "C05": ("TLC exhaustive model checking of MC_Negotiation (Layer A theorems: membership, no 406 after admission, whitespace/parameter invariance; "
         "Layer B EntityWriter inside Layer A; legacy parser counter-model refuted) + replay of every state in 7 header styles on the real "
         "Response.WriteEntity (pretty and streaming writer branch, Content-Type as frozen at WriteHeader, every case asked for once before its writers are registered) "
         "+ TLC trace validation (NegoTrace) of random Accept-grammar headers; one route serves every header of a case (with other requests in between; half of the cases "
         "behind a middleware that wraps the ResponseWriter) + declaration-history stage (Builder.tla / MC_Builder / BuilderTrace: Produces inherited from the WebService, clauses C05.decl / member / best)",
         "The allowed representation set BestSet is defined in TLA+ for every reading the property leaves open; every real write (12 "
         "repetitions per request to expose map-order nondeterminism) is judged against it.", "6 C05",
         "Trusted: TLC, Json module, net/http; SP is the only optional whitespace generated; at least one Produces entry has a registered writer."),
 "C08": ("TLC exhaustive model checking of MC_Cors (every configuration x stored-methods state; every pool request answered by the "
         "implementation-shaped filter and judged by all C08 clauses; both readings of 'allowed origin' proved equal on the pool) + replay of "
         "every configuration with the whole pool on one real filter instance next to a filter-less twin container + TLC trace validation "
         "(CorsTrace, clauses C08.*) incl. random origins derived from allowed entries by edit operations, a predicate that changes its verdict in mid-sequence, "
         "and 8 goroutines against WebServices with CORS filters of their own",
         "OriginAllowed is written exactly as the statement words it; no-grant responses must equal the filter-less twin's projection.",
         "6 C08", "Trusted: TLC, Json module, net/http; predicate catalogue is case-insensitive; handlers add no Access-Control-* header."),
 "C09": ("same pipeline, clauses C09.alone / refuse / grant / actual; histories of preflights to different URLs on one filter instance; "
         "the pointer-receiver counter-model (computed methods persisting on the filter) is refuted by TLC",
         "Preflight grant is defined in Layer A from configured methods or the methods routable at the URL; each response of a request "
         "sequence on ONE real filter instance is judged against its own URL.", "6 C09",
         "Trusted as for C08; routable methods come from the harness's fixed route table (incl. a nested WebService shadowing a generic route)."),
 "C06": ("TLC exhaustive model checking of MC_Dispatch (Container.dispatch as a state machine, one action per code step; the Layer A monitor "
         "Dispatch!Step accepts every behaviour; counter-model SharedChain refuted) + replay of every configuration on the real Container "
         "(Dispatch, ServeHTTP, HandleWithFilter; two requests in sequence) + TLC trace validation (DispatchTrace, clauses C06.*) of event logs "
         "written by generated filters/handlers (native, net/http middleware, real CORS filters), incl. random chains of up to 15 filters and 8-goroutine batches (per-request projection) "
         "+ declaration-history stage (Builder.tla / MC_Builder / BuilderTrace: route filters are the builder's at registration, WebService filters apply to all its routes whenever added; clause C06.decl)",
         "Order, exactly-once, short-circuit, pair/attribute propagation and the error-path rule are enabling conditions of the monitor's "
         "actions; every per-request event log of the real code must be a behaviour of the monitor.", "6 C06", "Trusted: TLC, Json module, net/http/httptest, compress/*; filters call ProcessFilter at most once; payload fidelity enters the specification as logged booleans."),
 "C07": ("same pipeline; the monitor's acquire/release ledger (C07.once) and the pure coding-decision clauses C07.label / mention / enabled / pre / "
         "none / payload evaluated by TLC on every real response (body decoded to EOF by the harness, payloads 0 B - 1 MiB written with Write or streamed with io.Copy "
         "onto an io.ReaderFrom writer, all entry points incl. a real server, providers, outcome kinds incl. recovered panics, run-time setting changes on route copies)",
         "When and how often coding / closing / releasing may happen is decided by the specification; DEFLATE itself is outside it.",
         "6 C07", "Trusted: TLC, Json module, net/http/httptest, compress/*; filters call ProcessFilter at most once; payload fidelity enters the specification as logged booleans."),
 "C10": ("same pipeline; every crash point of MC_Dispatch (each filter before/after passing control, the target) x recovery x encoding x entry "
         "point replayed 1:1; clauses C10.* of the monitor (recover exactly once, nothing after the panic, no leak, escape iff recovery off) plus "
         "status / usable (probe requests equal to a never-panicked twin, Container.Add completes), panics below Request.ReadEntity of a gzip entity (reader ledger), "
         "buffering filters; counter-models DefersSwapped and "
         "NoCloseOnPanic refuted by TLC",
         "Crash points are enumerated by TLC, not sampled (panic values: string, error, int, http.ErrAbortHandler); the state left behind is observed by follow-up requests and the compressor ledger.",
         "6 C10", "Trusted: TLC, Json module, net/http/httptest, compress/*; filters call ProcessFilter at most once; payload fidelity enters the specification as logged booleans."),
 "C19": ("TLC exhaustive model checking of MC_Pure (every interleaving of three requests in flight; invariants Pure / NoResidue; four "
         "counter-models - shared parameter map, attribute map, filter chain, CORS methods - each refuted) + TLC trace validation (PureTrace) "
         "of real-container histories: each request key is bound on a fresh container and every later observation (sequential position, "
         "16-goroutine batch, tracing on; part under the race detector) must equal it and must have seen its own request",
         "Purity is a statement over histories and schedules: the model shows which per-request objects it depends on, the trace "
         "validation compares every real observation with the fresh-container one; handlers add to their own request's parameter map.", "6 C19",
         "Trusted: TLC, Json module, net/http, the race detector (dynamic: evidence for the explored schedules only)."),
 "C11": ("TLC exhaustive model checking of MC_Registry (every registration history up to MaxOps over Add / Remove / Handle; Layer B - "
         "webServices, ServeMux patterns, root flag as container.go keeps them, with a model of net/http.ServeMux lookup - must answer every "
         "probe like a fresh container with Layer A's content; Add never panics; three legacy behaviours refuted as counter-models) + replay of "
         "every complete history on real containers + TLC trace validation (RegistryTrace): after every operation a fresh container is built "
         "from the content the specification computes and 30 probes go through ServeHTTP and Dispatch of both (operations incl. two routes on one method+path removed together, "
         "route swaps, registrations net/http refuses)",
         "History independence is a statement over all operation sequences: exhaustive up to MaxOps on the model, every such history and "
         "random ones of up to 30 operations on the real code with a differential oracle.", "6 C11",
         "Trusted: TLC, Json module, net/http (ServeMux). Duplicate roots / duplicate Handle patterns are not generated (documented exits/panics)."),
 "C12": ("TLC exhaustive model checking of MC_RegistryConc (lock-discipline model: every operation a straight-line program of RWMutex "
         "operations and shared accesses, all interleavings of 4-5 threads; invariants NoDataRace / LockSound, deadlock check, liveness "
         "Completion under weak fairness; three legacy disciplines refuted) + the conflicting operation pairs and seeded mutation histories "
         "run on the real Container under the Go race detector + TLC trace validation (ConcTrace): every response must be the answer of a "
         "registration state that existed during the request (window rule, incl. isolation)",
         "Data-race freedom is decided on the lock-discipline model and observed on the real code by the race detector on exactly the "
         "pairs the model shows to be critical; linearisability of responses is checked against fresh containers for every state of the window; "
         "rounds with two mutators on disjoint services check that nothing is lost (C12.final) and that a panicking condition leaves no lock behind; mutated roots "
         "include ones sharing their fixed ServeMux prefix and a service on '/'.",
         "6 C12", "Trusted: TLC, the Go race detector (dynamic), one mutator goroutine; a 30 s watchdog defines deadlock."),
 "C13": ("TLC exhaustive model checking of MC_Pool (N processes x Rounds of Acquire / Close / nil / second Close on the bounded channel cache "
         "for several (N, K) incl. K = 0, and on the sync.Pool bag; invariants Exclusive / NeverBlocks / CacheBounded, liveness Completion under "
         "weak fairness; legacy check-then-send release and a releasing second Close refuted; PoolInd: Exclusive / CacheBounded inside an inductive "
         "invariant checked with Apalache, i.e. for any number of rounds and objects) + TLC's legacy counterexample reproduced on the real "
         "cache by spin-barrier rounds + TLC trace validation (PoolTrace) of the acquire/release ledger of an instrumenting provider around the "
         "real providers under 8-64 goroutines of encoded responses, panicking handlers, hijacked connections and gzip request bodies, bodies decoded and compared, "
         "one part under the race detector, double Close per provider and coding",
         "Exclusive ownership and non-blocking release are schedule properties: all interleavings on the model, the critical interleaving "
         "forced on the real code by the barrier, random schedules judged by the ledger monitor.", "6 C13",
         "Trusted: TLC, compress/*, the race detector; ledger events are logged under one mutex after acquire / before release."),
 "C15": ("TLC exhaustive model checking of MC_Response (every public writing call decomposed into the WriteHeader / Write calls it makes on the "
         "underlying writer; every call sequence up to MaxCalls x every failure budget; invariants StatusLaw / LengthLaw / ErrorLaw; three "
         "counter-models refuted) + replay of every sequence on the real Response over an instrumenting writer with every failure position, "
         "over gzip / deflate writers and through real Dispatch (trailing filter; also when a custom RouteSelector fails with errors of its own) + TLC trace validation (RespTrace) of the recorded returns",
         "The laws quantify over call sequences and fault positions: both are enumerated, not sampled, within the bounds; random sequences "
         "extend payload sizes and call kinds.", "6 C15", "Trusted: TLC, Json module, compress/*; the failing writer accepts a prefix and returns an error."),
 "C16": ("TLC exhaustive model checking of MC_Entity (every sequence of request kinds against the state pooled gzip readers are left in, "
         "capacities 0/1/2 and the sync.Pool bag; invariants HistoryIndependent / ReleasedOnce; NoReset and LeakOnError refuted) + replay of the "
         "explored sequences on the real Request.ReadEntity with concrete seeded values written by the real entity writers (a third preceded by a write to a client that went away) + TLC trace "
         "validation (EntityTrace): the outcome each body must have is computed by the specification from its kind alone",
         "The HISTORY quantifier (what earlier requests left behind, error paths, providers) is decided by the model and replayed; the VALUE "
         "quantifier (every value of the codecs' common domain) is encode/decode fidelity, outside what a TLA+ specification decides: it is "
         "only sampled by the seeded values of the replay (DESIGN.md section 12).", "6 C16",
         "Trusted: TLC, encoding/json, encoding/xml, compress/*, reflect.DeepEqual; value domain sampled; damage kinds with a certain error only."),
}

NOT_YET = "not claimed"

def main():
    checks = []
    for pid in sorted(CHECKS):
        tech, text, ref, note = CHECKS[pid]
        checks.append({
            "property_id": pid,
            "quick_cmd": "bin/check %s quick" % pid,
            "thorough_cmd": "bin/check %s thorough" % pid,
            "evidence_file": "evidence/%s.json" % pid,
            "replay_cmd_template": "bin/check --replay {path}",
            "engine": "tlc+go-harness",
            "level_claimed": {"category": "model_checking", "text": text, "design_ref": "DESIGN.md section " + ref},
            "level_note": note,
            "technique": tech,
        })
    hooks = json.load(open(os.path.join(V, "hooks.json"))) if os.path.exists(os.path.join(V, "hooks.json")) else []
    m = {
        "version": 1,
        "setup_cmd": "bin/setup",
        "hooks": {"guard": "verif", "enable": "go build -tags verif (every harness build passes the tag)",
                  "baseline_off_cmd": "cd /repo && go test -vet=off -count=1 -json ./...",
                  "source_commits": hooks, "add_only": True},
        "engines": [{"name": "tlc+go-harness", "path": "bin/check",
                     "serves_properties": sorted(CHECKS),
                     "kind_free_text": "explicit TLA+ specification (spec/*.tla) checked with TLC; bound to the code by replaying "
                                       "TLC-enumerated cases into the real library (Go harness, harness/) and validating traces "
                                       "recorded from the real library against the specification with TLC"}],
        "checks": checks,
        "not_applicable": [{"property_id": "C%02d" % i, "reason": NOT_YET} for i in range(1, 20) if "C%02d" % i not in CHECKS],
        "notes": "exit 2 = infrastructure failure (never a verdict); known_findings.json lists recorded defects and fixes; "
                 "VERIF_SEED seeds every random driver",
    }
    json.dump(m, open(os.path.join(V, "MANIFEST.json"), "w"), indent=1)

main()

"""C06, C07, C10: per-request control flow of Container.dispatch (filters, encoding, panics)"""
from vlib import *

MC = """SPECIFICATION Spec
CONSTANTS
  Tier = "%s"
  SharedChain = %s
  DefersSwapped = %s
  NoCloseOnPanic = %s
INVARIANTS MonitorAccepts RecoverCanWrite Export
CHECK_DEADLOCK FALSE
"""
F, T = "FALSE", "TRUE"

MODE = {"C06": "chain", "C07": "enc", "C10": "panic"}


def expand(cases, run):
    """model configurations -> harness cases (entry points, providers)"""
    out = []
    for c in cases:
        c = dict(c)
        c["lv"] = list(c["lv"])
        entries = ["D", "S"] if run.prop != "C06" else ["D", "S", "HF"]
        for en in entries:
            d = dict(c, entry=en, provider="pool" if en == "D" else "cache1", recStatus=503 if c["rec"] and en == "S" else 0,
                     alt=(en == "D"), flipAfter=(run.prop == "C07" and en == "S"))
            if en == "HF":
                if not c["routed"]:
                    continue
                d["routed"] = False
            out.append(d)
    return out


def plans(cases, run):
    n = {"quick": 2500, "thorough": 40000}[run.tier]
    return [("mc", {"cases": expand(cases, run), "random": 0, "mode": MODE[run.prop]}, None, False),
            ("rnd", {"cases": [], "random": n, "mode": MODE[run.prop], "_seed": run.seed * 1000 + 1}, None, False)]


def context(ev, events):
    idx = next(i for i, e in enumerate(events) if e is ev)
    start = max(i for i in range(idx + 1) if events[i]["e"] == "dreq")
    return {"case": events[start]["case"], "events": events[start:idx + 1]}


def replay_plan(rp, run):
    return [("replay", {"cases": [rp["context"]["case"]], "random": 0, "mode": "chain"}, None, False)]


def case_of(ev, events_index):
    return events_index.get(id(ev))


def sig_c07_servehttp_route_off(ev, mis):
    o = ev.get("obs", {})
    # ("NET" is ServeHTTP behind a real net/http server)
    return (mis["clause"] == "C07.enabled" and o.get("entry") in ("S", "NET") and o.get("cEnc") and o.get("rEnc") == "off"
            and o.get("routed"))


def sig_c10_handle_no_recover(ev, mis):
    o = ev.get("obs", {})
    return mis["clause"] in ("C10.recoveronce", "C10.escaped") and o.get("entry") in ("H", "HF")


RULES = {
    "C06": ("requests", "chains",
            "cases = (filters per level, script per filter, outcome kind, entry point): every configuration of MC_Dispatch "
            "(all-pass plus one or two deviating filters: stop / replace pair / panic before / panic after) through Dispatch, "
            "ServeHTTP and HandleWithFilter, two requests in sequence each, plus seeded random chains of up to 5 filters per "
            "level incl. http-middleware adapters, and batches of 8 goroutines x 4 requests on one container (per-request "
            "projection). Non-trivial = requests with >= 2 filters or a short-circuit, counted by the trace spec."),
    "C07": ("requests", "applied",
            "cases = (entry point, container switch, route switch, Accept-Encoding, pre-set Content-Encoding, outcome kind, "
            "payload 0 B - 1 MiB, chunking, provider): MC_Dispatch configurations with encoding on/off plus seeded random "
            "combinations; the body is decoded with compress/gzip / compress/zlib to EOF and compared with the bytes written. "
            "Non-trivial = responses to which a coding was applied, counted by the trace spec."),
    "C10": ("requests", "panics",
            "cases = every crash point of MC_Dispatch (each filter before / after passing control, the target) x recovery "
            "on/off x encoding on/off x entry point, two requests in sequence, each followed by probe requests compared with a "
            "never-panicked twin container and by a Container.Add under a watchdog; plus seeded random panic scripts. "
            "Non-trivial = requests in which a panic was raised, counted by the trace spec."),
}


def fam(run):
    ev_c, nt_c, rule = RULES[run.prop]
    tier = run.tier
    return {
        "name": "dispatch",
        "mc": {t: [("MC_Dispatch", MC % (t, F, F, F), "MC_Dispatch-" + t)] for t in ("quick", "thorough")},
        "mc_must_violate": {t: [("MC_Dispatch", MC % ("quick", T, F, F), "MC_Dispatch-SharedChain", "chain index survives a request"),
                                ("MC_Dispatch", MC % ("quick", F, T, F), "MC_Dispatch-DefersSwapped", "compressor closed before the recover handler writes"),
                                ("MC_Dispatch", MC % ("quick", F, F, T), "MC_Dispatch-NoCloseOnPanic", "compressor not released when a panic unwinds")]
                            for t in ("quick", "thorough")},
        "driver": "chain", "plans": plans, "replay_plan": replay_plan, "replay_context": context,
        "trace_module": "DispatchTrace",
        "reg_names": ["line", "requests", "chains", "applied", "panics", "recovered", "events", "preset"],
        "eval_counter": ev_c, "nontrivial_counter": nt_c, "rule": rule,
        "split": shards_by_group("dreq", lambda ev: ev.get("rep", 0) == 0),   # both requests of a case stay together
        "count_traces": lambda evs: sum(1 for e in evs if e["e"] == "dreq"),
        "assumptions": ["filters call ProcessFilter at most once; handlers, conditions and predicates are pure",
                        "payload fidelity is observed by the harness with the standard library decoders and enters the "
                        "specification as logged booleans (decodeOK, decodedEq, bodyEq)",
                        "the default recover handler cannot log: its invocation is recognised from its output",
                        "a plain http.Handler target cannot see the restful pair (pair identity not judged there)"],
        "sample": lambda ev: ev if ev.get("e") == "dend" else None,
        "signatures": {"c07-servehttp-ignores-route-switch": sig_c07_servehttp_route_off,
                       "c10-handle-not-recovered": sig_c10_handle_no_recover},
        "explanation": "MC_Dispatch (Container.dispatch as a state machine, one action per code step, every crash point) is explored "
                       "exhaustively; the Layer A monitor accepts every behaviour; three counter-models are refuted; every "
                       "configuration is replayed on the real Container and its event log validated by the same monitor.",
    }


def check(run, replay=None):
    import fam_builder
    return simple_family(run, fam(run), replay, stages=[("declaration_history", fam_builder.FAM)] if run.prop == "C06" else ())

"""C16: entities survive write then read, also compressed, whatever came before"""
from vlib import *

MC = """SPECIFICATION Spec
CONSTANTS
  K = %d
  MaxReq = %d
  SyncPool = %s
  NoReset = %s
  LeakOnError = %s
INVARIANTS HistoryIndependent ReleasedOnce %s
CHECK_DEADLOCK FALSE
"""
F, T = "FALSE", "TRUE"


def plans(cases, run):
    n, mx = {"quick": (150, 10), "thorough": (4000, 30)}[run.tier]
    if run.tier == "quick":
        # quick: every pair whose first body is damaged or compressed (the history that matters), a third of the rest
        sel = [c for i, c in enumerate(cases) if c["kinds"][0]["dmg"] != "none" or c["kinds"][0]["ce"] == "gzip" or i % 3 == 0]
    else:
        sel = cases
    return [("mc", {"cases": sel, "random": 0}, None, False),
            ("rnd", {"cases": [], "random": n, "maxLen": mx, "_seed": run.seed * 1000 + 1}, None, False)]


FAM = {
    "name": "entity",
    "mc": {"quick": [("MC_Entity", MC % (1, 2, F, F, F, "Export"), "MC_Entity-K1"), ("MC_Entity", MC % (0, 2, F, F, F, ""), "MC_Entity-K0")],
           "thorough": [("MC_Entity", MC % (1, 2, F, F, F, "Export"), "MC_Entity-K1"), ("MC_Entity", MC % (0, 2, F, F, F, ""), "MC_Entity-K0"),
                        ("MC_Entity", MC % (2, 2, F, F, F, ""), "MC_Entity-K2"), ("MC_Entity", MC % (1, 2, T, F, F, ""), "MC_Entity-syncpool")]},
    "mc_must_violate": {t: [("MC_Entity", MC % (1, 2, F, T, F, ""), "MC_Entity-NoReset", "the pooled gzip reader is not reset onto the new body"),
                            ("MC_Entity", MC % (1, 2, F, F, T, ""), "MC_Entity-LeakOnError", "the reader is not released when decoding fails")]
                        for t in ("quick", "thorough")},
    "driver": "entity", "plans": plans,
    "replay_plan": lambda rp, run: [("replay", {"cases": [{"kinds": rp["context"]["kinds"]}], "random": 0, "providers": [rp["context"]["provider"]]}, None, False)],
    "replay_context": lambda ev, events: (lambda s: {"kinds": s["kinds"], "provider": s["provider"]})(
        events[max(i for i in range(next(j for j, e in enumerate(events) if e is ev) + 1) if events[i]["e"] == "ecase")]),
    "trace_module": "EntityTrace",
    "reg_names": ["line", "bodies", "afterDamage", "compressedOk", "sequences"],
    "eval_counter": "bodies", "nontrivial_counter": "afterDamage",
    "split": shards_by_group("ecase"),
    "count_traces": lambda evs: sum(1 for e in evs if e["e"] == "ecase"),
    "rule": "cases = sequences of request kinds (codec x Content-Type spelling [exact, charset parameter, absent with default set] x "
            "Content-Encoding x damage [none, truncated, corrupt header, declared-but-plain, empty, truncated syntax]): every pair explored by "
            "MC_Entity (quick: every pair whose first body is damaged or gzip, a third of the others) and seeded random sequences of up to 30 "
            "bodies, on the sync.Pool and bounded-cache (K = 0, 1, 2) providers; each body is produced by the real entity writer (pretty or "
            "not) from a seeded value (int64 / uint64 extremes, 2^53+1, nested struct, slices, strings over all Unicode planes; XML-legal for "
            "XML) and read back by an echo handler with ReadEntity into a typed struct (DeepEqual) and, for JSON, into an untyped map (exact "
            "number text). Non-trivial = bodies read after an earlier damaged body of the same sequence, counted by the trace spec.",
    "assumptions": ["the value quantifier is sampled, not decided (encode/decode fidelity is outside what the specification decides)",
                    "damage kinds are those for which an error is certain (a flipped byte inside a compressed stream is not generated: the "
                    "decoder may stop before the checksum)",
                    "XML values avoid characters XML 1.0 cannot carry (controls) and carriage returns (normalised by XML itself)"],
    "sample": lambda ev: ev if ev.get("e") == "eres" and ev.get("afterDamage") else None,
    "signatures": {},
    "explanation": "MC_Entity explores every sequence of MaxReq request kinds against the pooled-reader state for capacities 0, 1, 2 and the "
                   "sync.Pool bag (HistoryIndependent, ReleasedOnce); NoReset and LeakOnError are refuted; every explored sequence is "
                   "replayed on the real ReadEntity with concrete values.",
}


def check(run, replay=None):
    return simple_family(run, FAM, replay)

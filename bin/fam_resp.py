"""C15: Response status and length bookkeeping match what was actually sent"""
from vlib import *

MC = """SPECIFICATION Spec
CONSTANTS
  MaxCalls = %d
  MaxBudget = %d
  CountsRequested = %s
  SwallowsError = %s
  ForgetsStatus = %s
INVARIANTS StatusLaw LengthLaw ErrorLaw Export
CHECK_DEADLOCK FALSE
"""
F, T = "FALSE", "TRUE"


def plans(cases, run):
    seen, out = set(), []
    for c in cases:
        calls = [x.split(":")[0] + (":" + x.split(":")[1] if x.startswith("Write:") else "") for x in c["calls"]]
        key = tuple(calls)
        if key not in seen:
            seen.add(key)
            out.append({"calls": calls})
    n = {"quick": 150, "thorough": 3000}[run.tier]
    return [("mc", {"cases": out, "random": 0}, None, False),
            ("rnd", {"cases": [], "random": n, "_seed": run.seed * 1000 + 1}, None, False)]


FAM = {
    "name": "resp",
    "mc": {"quick": [("MC_Response", MC % (3, 8, F, F, F), "MC_Response-3")],
           "thorough": [("MC_Response", MC % (4, 10, F, F, F), "MC_Response-4")]},
    "mc_must_violate": {t: [("MC_Response", MC % (3, 8, T, F, F), "MC_Response-CountsRequested", "requested instead of accepted bytes are counted"),
                            ("MC_Response", MC % (3, 8, F, T, F), "MC_Response-SwallowsError", "a failing underlying Write is not reported"),
                            ("MC_Response", MC % (3, 8, F, F, T), "MC_Response-ForgetsStatus", "WriteErrorString does not record the status")]
                        for t in ("quick", "thorough")},
    "driver": "resp", "plans": plans,
    "replay_plan": lambda rp, run: [("replay", {"cases": [{"calls": rp["context"]["calls"]}], "random": 0}, None, False)],
    "replay_context": lambda ev, events: {"calls": events[max(i for i in range(next(j for j, e in enumerate(events) if e is ev) + 1) if events[i]["e"] == "rcase")]["calls"]},
    "trace_module": "RespTrace",
    "reg_names": ["line", "returns", "failing", "sequences", "coded"],
    "eval_counter": "returns", "nontrivial_counter": "failing",
    "split": shards_by_group("rcase"),
    "count_traces": lambda evs: sum(1 for e in evs if e["e"] == "rcase"),
    "rule": "cases = call sequences obeying the precondition (status at most once, before any body byte): every sequence of MaxCalls calls "
            "explored by MC_Response (Write, WriteHeader, WriteEntity, WriteHeaderAndEntity, nil entity, WriteAsXml pretty, WriteAsJson, 406 "
            "branch, WriteErrorString, WriteError(nil / err), WriteServiceError) plus seeded random sequences with payloads up to 70 kB and more "
            "call kinds; each runs with pretty printing on and off, on a never-failing writer, with EVERY failure position 0..total+1 of the "
            "underlying writer (sampled at 40 positions beyond 60 bytes), over gzip and deflate writers, and inside a handler through real "
            "Dispatch with a trailing filter reading StatusCode()/ContentLength(). Non-trivial = returns of a call during which the "
            "underlying writer failed, counted by the trace spec.",
    "assumptions": ["the failing writer accepts a prefix of the chunk that crosses its budget and returns an error for it",
                    "a handler stops writing after the first error"],
    "sample": lambda ev: ev if ev.get("e") == "rret" and ev.get("failed") else None,
    "signatures": {},
    "explanation": "MC_Response decomposes every public call into the WriteHeader / Write calls it makes on the underlying writer and explores "
                   "every call sequence x failure budget; the three laws are invariants; three counter-models are refuted; every "
                   "sequence is replayed on the real Response with every failure position.",
}


def check(run, replay=None):
    return simple_family(run, FAM, replay)

"""C12: services and routes can change while requests are being served"""
import glob
import re
from vlib import *

MC = """SPECIFICATION FairSpec
CONSTANTS
  CurlyUsesRoutesAccessor = %s
  ServeReadsMuxUnderLock = %s
  HandleLocks = %s
  Threads <- %s
INVARIANTS NoDataRace LockSound
PROPERTY Completion
"""
F, T = "FALSE", "TRUE"

MIXES = {
    "MixA": ["serveCurly", "dispatchCurly", "remove", "route"],
    "MixB": ["serveJsr", "serveCurly", "add", "removeRoute"],
    "MixC": ["serveCurly", "remove", "add", "handle"],
    "MixD": ["dispatchCurly", "options", "route", "removeRoute"],
    "MixE": ["serveCurly", "serveJsr", "dispatchCurly", "remove", "route"],
}
PAIRS = [["remove", "remove"], ["serveCurly", "remove"], ["dispatchCurly", "route"], ["serveCurly", "add"], ["dispatchCurly", "removeRoute"],
         ["serveCurly", "handle"], ["remove", "handle"], ["serveCurly", "route"], ["add", "remove"]]


def write_mix_module(run):
    d = stage_spec(run)
    with open(os.path.join(d, "MCC.tla"), "w") as f:
        f.write("---- MODULE MCC ----\nEXTENDS MC_RegistryConc\n")
        for name, kinds in MIXES.items():
            f.write("%s == <<%s>>\n" % (name, ", ".join('"%s"' % k for k in kinds)))
        f.write("====\n")


def race_reports(pattern):
    """distinct race reports (by their go-restful frames) from GORACE log files"""
    out = {}
    for fp in glob.glob(pattern + "*"):
        text = open(fp, errors="replace").read()
        for block in text.split("WARNING: DATA RACE")[1:]:
            block = block.split("==================")[0]
            frames = re.findall(r"(github\.com/emicklei/go-restful/v3[^\s(]*)\(", block)
            lines = re.findall(r"/repo/([\w./]+:\d+)", block)
            if frames:
                key = tuple(sorted(set(lines)))[:6]
                out.setdefault(key, {"frames": sorted(set(frames))[:8], "lines": list(key)})
    return list(out.values())


def read_exited(run, path):
    """events of a driver run; exit code 1 without a Go panic is os.Exit(1) of the library itself (duplicate
    root path in Add): an event for the monitor, any other failure is an infrastructure failure"""
    p = run.last_harness
    evs = []
    for line in open(path, errors="replace"):
        line = line.strip()
        if line:
            try:
                evs.append(json.loads(line))
            except ValueError:
                pass      # last line cut off by the exit
    if p.returncode == 0:
        return evs
    if p.returncode == 1 and "panic:" not in p.stderr and "HARNESS-FATAL" not in p.stderr:
        evs.append({"e": "cexit", "code": 1})
        return evs
    m = re.search(r"fatal error: (concurrent map [a-z ]+)", p.stderr)
    if m:
        # the Go runtime aborted the process because two goroutines used one map without synchronisation: a data
        # race it detects itself.  A verdict only when the faulting frame is the library's, not the harness's
        frames = [l.split("(")[0] for l in p.stderr[m.end():].split("\n") if l and not l.startswith(("\t", " ", "goroutine", "runtime.", "internal/"))]
        frames = [f for f in frames if "/" in f or f.startswith("main.")][:6]
        if frames and frames[0].startswith("github.com/emicklei/go-restful"):
            evs.append({"e": "crace", "frames": [m.group(1)] + frames, "lines": []})
            return evs
    raise Infra("conc driver failed (exit %d):\n%s" % (p.returncode, (p.stdout + p.stderr)[-3000:]))


def check(run, replay=None):
    tier = run.tier
    write_mix_module(run)
    mc_info = []
    mixes = ["MixA", "MixB", "MixC", "MixD"] + (["MixE"] if tier == "thorough" else [])
    if replay is None:
        for mix in mixes:
            r = tlc(run, "MCC", MC % (T, T, T, mix), workers=NCPU, heap="4g", tag="MC_RegistryConc-" + mix)
            if r.violated:
                raise Infra("design check failed: lock-discipline model %s violates %s\n%s" % (mix, r.violated, "\n".join(r.lines[-40:])))
            mc_info.append({"config": mix, "threads": MIXES[mix], "states": r.distinct})
        for what, flags in (("CurlyRouter reads ws.routes without the routes lock", (F, T, T, "MixA")),
                            ("ServeHTTP reads c.ServeMux without the lock", (T, F, T, "MixA")),
                            ("Handle reads c.ServeMux without the lock", (T, T, F, "MixC"))):
            r = tlc(run, "MCC", MC % flags, workers=NCPU, heap="4g", tag="MC_RegistryConc-legacy-" + flags[3] + "-" + "".join(x[0] for x in flags[:3]),
                    expect_violation=True)
            if r.violated != "NoDataRace":
                raise Infra("vacuity: counter-model (%s) was not refuted by NoDataRace (got %s)" % (what, r.violated))
            mc_info.append({"counter_model": what, "refuted_by": r.violated, "states": r.distinct})
    rounds, ops, servers = {"quick": (25, 12, 4), "thorough": (400, 20, 8)}[tier]
    events = []
    racelog = run.path("racelog")
    duo = {"quick": 15, "thorough": 200}[tier]
    plan_race = {"rounds": rounds, "servers": servers, "ops": ops, "pairs": PAIRS, "duo": duo}
    vh_race = build_harness(run, race=True)
    path = run_harness(run, vh_race, "conc", plan_race, "conc-race", seed=run.seed * 1000 + 1,
                       env_extra={"GORACE": "log_path=%s halt_on_error=0 exitcode=0" % racelog}, timeout=3000, allow_fail=True)
    events += read_exited(run, path)
    vh = build_harness(run)
    path = run_harness(run, vh, "conc", {"rounds": rounds * 2, "servers": servers * 2, "ops": ops, "pairs": [], "duo": duo * 2}, "conc-plain",
                       seed=run.seed * 1000 + 2, timeout=3000, allow_fail=True)
    events += read_exited(run, path)
    reports = race_reports(racelog)
    for rep in reports:
        events.append({"e": "crace", "frames": rep["frames"], "lines": rep["lines"]})
    shards = chunk(events, NCPU)
    mismatches, consumed = validate_shards(run, "ConcTrace", shards,
                                           reg_names=["line", "judged", "inflight", "ambiguous", "rounds"])
    for ev, mis in mismatches:
        clause = mis["clause"]
        payload = {"family": "conc", "property": "C12", "clause": clause, "event": ev, "seed": run.seed}
        p = write_replay(run, clause, payload)
        run.violations.append((clause, p, json.dumps(ev)[:400]))
    samples = [e for e in events if e["e"] == "cresp" and e["hi"] > e["lo"]][:2] + [e for e in events if e["e"] == "chist"][:1]
    cov = {
        "evaluations": run.cov.get("judged", 0),
        "distinct_nontrivial": run.cov.get("inflight", 0),
        "rule": "rounds = seeded histories of Add / Remove / Route / RemoveRoute performed by one mutator goroutine while 4-16 server "
                "goroutines cycle over 12 probe URLs through ServeHTTP and Dispatch, both routers; half of the rounds (and 8 head-to-head "
                "pairs of operations TLC found conflicting in the legacy model, 30 repetitions each) run in a -race build whose reports "
                "are collected; further rounds have TWO mutator goroutines on disjoint services (no window rule; when both are done the "
                "container must answer like a fresh one holding what both histories leave behind). Non-trivial = responses during which at least one mutation was in flight (window of >= 2 states), "
                "counted by the trace spec; 'ambiguous' counts those with >= 2 different candidate answers.",
        "samples": samples,
        "traces_validated_against_impl": run.cov.get("rounds", 0),
        "exhaustive": False,
        "mc": mc_info,
        "events_consumed_by_trace_spec": consumed,
        "trace_counters": dict(run.cov),
        "race_reports": len(reports),
        "explanation": "the lock-discipline model is explored exhaustively for every thread mix (no data race, lock soundness, no "
                       "deadlock, completion under weak fairness); the three legacy disciplines are refuted; the real code runs the "
                       "conflicting pairs and random histories under the race detector and every response is checked against the "
                       "window of registration states that existed during the request.",
    }
    return finish(run, "model_checking", cov,
                  ["one mutator goroutine (a total order of registration states exists by construction)",
                   "the race detector is dynamic: no report is evidence for the explored schedules only",
                   "dynamic routes are enabled on every service whose routes change",
                   "a round not finished after 30 s is a deadlock"])

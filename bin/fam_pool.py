"""C13: pooled compressors are never shared, lost twice, or a reason to block"""
from vlib import *

MC = """SPECIFICATION FairSpec
CONSTANTS
  N = %d
  K = %d
  Rounds = %d
  AtomicRelease = %s
  SyncPool = %s
  SecondCloseReleases = %s
INVARIANTS Exclusive NeverBlocks CacheBounded
PROPERTY Completion
"""
F, T = "FALSE", "TRUE"


def mcs(tier):
    out = []
    combos = [(2, 0, 2), (2, 1, 2), (3, 1, 2), (3, 2, 1)] if tier == "quick" else [(2, 0, 2), (2, 1, 3), (3, 1, 2), (3, 2, 2), (4, 1, 1), (4, 2, 1)]
    for n, k, r in combos:
        out.append(("MC_Pool", MC % (n, k, r, T, F, F), "MC_Pool-N%dK%dR%d" % (n, k, r)))
    out.append(("MC_Pool", MC % (3, 0, 2, T, T, F), "MC_Pool-syncpool"))
    return out


def plans(cases, run):
    if run.tier == "quick":
        return [("race", {"barrierRounds": 0, "ks": [], "rounds": 2, "g": 8, "perG": 10, "_seed": run.seed * 1000 + 2}, {"GORACE": "halt_on_error=1 exitcode=66"}, True),
                ("main", {"barrierRounds": 40, "m": 16, "ks": [1, 2], "rounds": 6, "g": 16, "perG": 25, "_seed": run.seed * 1000 + 1}, None, False)]
    return [("race", {"barrierRounds": 0, "ks": [], "rounds": 10, "g": 16, "perG": 30, "_seed": run.seed * 1000 + 2}, {"GORACE": "halt_on_error=1 exitcode=66"}, True),
            ("main", {"barrierRounds": 400, "m": 16, "ks": [0, 1, 2, 8], "rounds": 40, "g": 64, "perG": 40, "_seed": run.seed * 1000 + 1}, None, False)]


FAM = {
    "name": "pool",
    "mc": {t: mcs(t) for t in ("quick", "thorough")},
    "mc_must_violate": {t: [("MC_Pool", MC % (3, 1, 2, F, F, F), "MC_Pool-legacy-release", "Release as capacity check then blocking send"),
                            ("MC_Pool", MC % (2, 1, 2, T, F, T), "MC_Pool-second-close-releases", "a second Close releases again")]
                        for t in ("quick", "thorough")},
    # unbounded in rounds and object identities: IndInv (incl. Exclusive, CacheBounded) is inductive (Apalache)
    "inductive": {"quick": ("PoolInd", ["CInit32"], "CInit32Legacy", "NotReach"),
                  "thorough": ("PoolInd", ["CInit32", "CInit41", "CInit20"], "CInit32Legacy", "NotReach")},
    "driver": "pool", "plans": plans,
    "replay_plan": lambda rp, run: plans([], run),
    "trace_module": "PoolTrace",
    "reg_names": ["line", "ledger", "overlap", "payloads", "barrier", "doubleClose"],
    "eval_counter": "ledger", "nontrivial_counter": "overlap",
    "split": shards_by_group("pround"),
    "count_traces": lambda evs: sum(1 for e in evs if e["e"] in ("pround", "pbar")),
    "rule": "(a) spin-barrier rounds: 16 goroutines each holding an acquired writer release at the same instant into a bounded cache of "
            "capacity K < 16 (a Release not returned after 250 ms is a block); (b) per provider (sync.Pool, bounded cache K = 0/1/2) rounds "
            "of 8-64 goroutines sending requests with gzip / deflate responses, panicking handlers and gzip request bodies (a quarter "
            "truncated) through real Dispatch with the instrumenting provider (ledger of acquire/release events, trap writer for use "
            "after release), every body decoded and compared with its own payload, one round under the race detector; (c) double Close "
            "per provider and coding. Non-trivial = acquires made while at least one other object was held (overlapping use), counted "
            "by the trace spec.",
    "assumptions": ["acquire is logged after the real acquire returned and release before the real release is called, under one mutex "
                    "(the log order is a legal linearisation of the provider calls)",
                    "blocking is observed with a watchdog (250 ms per barrier round, 20 s per dispatch round)"],
    "sample": lambda ev: ev if ev.get("e") in ("pbar", "pdbl") else None,
    "signatures": {},
    "replay_context": lambda ev, events: {"note": "re-run the same seed"},
    "explanation": "MC_Pool explores every interleaving of N processes x Rounds at Acquire / Close / (Check, Send) / nil / second-Close "
                   "granularity for several (N, K) incl. K = 0 and the sync.Pool bag, with invariants Exclusive, NeverBlocks, CacheBounded "
                   "and liveness Completion; the legacy check-then-send release and a releasing second Close are refuted. "
                   "PoolInd (typed, checked with Apalache): Exclusive / CacheBounded are part of an inductive invariant, i.e. hold for "
                   "any number of rounds and objects for the listed (N, K); the releasing second Close breaks inductiveness.",
}


def check(run, replay=None):
    try:
        return simple_family(run, FAM, replay)
    except Infra as e:
        if "exit 66" in str(e) or "DATA RACE" in str(e):
            path = write_replay(run, "C13.race", {"family": "pool", "property": "C13", "clause": "C13.exclusive", "report": str(e)[-3000:]})
            run.violations.append(("C13.exclusive", path, "data race on a pooled compressor reported by the Go race detector"))
            return finish(run, "model_checking", {"evaluations": 1, "distinct_nontrivial": 0, "rule": FAM["rule"], "samples": [str(e)[-500:]],
                                                  "traces_validated_against_impl": 0}, FAM["assumptions"])
        raise

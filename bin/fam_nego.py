"""C05: content negotiation of entity writes"""
from vlib import *

MC = """SPECIFICATION Spec
CONSTANTS
  Tier = "%s"
  CheckRefinement = TRUE
  TrimsAndScansParams = %s
  ProducesFirst = %s
INVARIANTS Check
CHECK_DEADLOCK FALSE
"""


MCH = """SPECIFICATION Spec
CONSTANTS
  MaxReq = %d
  ReordersInPlace = %s
  TrimsAndScansParams = TRUE
  ProducesFirst = TRUE
INVARIANTS HistoryFree
%s
CHECK_DEADLOCK FALSE
"""


def plans(cases, run):
    n = {"quick": 1500, "thorough": 30000}[run.tier]
    for i, c in enumerate(cases):
        c["mw"] = i % 2 == 1      # every second case behind a middleware that wraps the ResponseWriter
    out = [("mc", {"cases": cases, "random": 0, "reps": 12}, None, False),
           ("rnd", {"cases": [], "random": n, "reps": 12, "_seed": run.seed * 1000 + 1}, None, False),
           ("nillog", {"cases": [], "random": n // 10, "reps": 2, "nilLogger": True, "_seed": run.seed * 1000 + 2}, None, False)]
    return out


def sig_default_type(ev, mis):
    """DefaultResponseContentType set to a type the route does not produce, and the written
    type is exactly that default"""
    return (mis["clause"] in ("C05.member", "C05.best") and ev["def"] != "" and ev["def"] not in ev["produces"]
            and ev["cts"] == [ev["def"]])


def sig_malformed_q(ev, mis):
    """the header carries a range with a malformed q-value (dropped by the parser); the writer was found by the
    substring lookup over the whole header: every written type occurs literally in the header and at least
    one of them is outside Produces (with two such types the choice follows map iteration order)"""
    import re
    if mis["clause"] not in ("C05.member", "C05.deterministic") or not ev["cts"]:
        return False
    malformed = False
    for part in ev["acc"].split(","):
        for prm in part.split(";")[1:]:
            kv = prm.split("=")
            if len(kv) == 2 and kv[0].strip().lower() == "q":
                v = kv[1].strip()
                if v in ("", ".") or not re.fullmatch(r"\d*\.?\d*", v):
                    malformed = True
    outside = [ct for ct in ev["cts"] if ct not in ev["produces"]]
    # the fall-backs that ignore Produces: substring lookup over the header, then the package default type
    return malformed and bool(outside) and all(ct in ev["acc"] or ct == ev["def"] for ct in ev["cts"])


FAM = {
    "name": "nego",
    "mc": {"quick": [("MC_Negotiation", MC % ("quick", "TRUE", "TRUE"), "MC_Negotiation-quick"),
                     ("MC_NegoHistory", MCH % (3, "FALSE", "PROPERTIES ProducesUntouched"), "MC_NegoHistory-3")],
           "thorough": [("MC_Negotiation", MC % ("thorough", "TRUE", "TRUE"), "MC_Negotiation-thorough"),
                        ("MC_NegoHistory", MCH % (5, "FALSE", "PROPERTIES ProducesUntouched"), "MC_NegoHistory-5")]},
    "mc_must_violate": {t: [("MC_Negotiation", MC % ("quick", "FALSE", "TRUE"), "MC_Negotiation-legacy",
                             "legacy Accept parser (media type not trimmed, only first parameter inspected)"),
                            ("MC_Negotiation", MC % ("quick", "TRUE", "FALSE"), "MC_Negotiation-legacy-fallbacks",
                             "fall-backs of the entity writer in the old order (whole-header look-up and package default before Produces)"),
                            ("MC_NegoHistory", MCH % (3, "TRUE", ""), "MC_NegoHistory-reorders",
                             "the entity writer reorders the route's Produces slice in place: a later request is answered differently")]
                        for t in ("quick", "thorough")},
    "driver": "nego",
    "plans": plans,
    "replay_plan": lambda rp, run: [("replay", {"cases": [{"produces": rp["event"]["produces"], "registered": rp["event"]["registered"],
                                                           "def": rp["event"]["def"], "accs": rp["event"].get("ctx") or [rp["event"]["acc"]],
                                                           "accs2": [rp["event"].get("acc2", "") if a == rp["event"]["acc"] else "" for a in (rp["event"].get("ctx") or [rp["event"]["acc"]])], "compact": rp["event"].get("compact", False), "preCT": rp["event"].get("preCT", ""), "mw": rp["event"].get("mw", False)}],
                                                "random": 0, "reps": 12}, None, False)],
    "trace_module": "NegoTrace",
    "trace_const": "CONSTANTS TrimsAndScansParams = TRUE\n  ProducesFirst = TRUE\n",
    "reg_names": ["line", "judged", "ranking", "memberOnly"],
    "eval_counter": "judged",
    "nontrivial_counter": "ranking",
    "rule": "cases = (Produces list, registered writers, default type, Accept header): every state of MC_Negotiation rendered "
            "in 7 whitespace/parameter styles, plus seeded random headers from an Accept grammar (1-5 ranges, q-values, "
            "parameters, SP around , ; =, malformed q); each is a real request through Dispatch whose handler calls "
            "WriteEntity, repeated 12 times. Non-trivial = judged writes with >= 2 Produces entries and >= 2 ranges "
            "(a ranking decision), counted by the trace spec.",
    "assumptions": ["optional whitespace is SP (HTAB not generated)",
                    "at least one Produces entry has a registered writer (the others need not); media types are spelled in the case the route declares",
                    "type wildcards (application/*) and q=0 are accepted under either reading",
                    "a malformed q-value leaves only membership to be judged"],
    "sample": lambda ev: ev if ev.get("e") == "nego" and ev.get("ran") == 1 else None,
    "signatures": {},
    "explanation": "MC_Negotiation is explored exhaustively by TLC (Layer A theorems, Layer B EntityWriter inside Layer A) and "
                   "every state is replayed on the real Response.WriteEntity; the legacy parser is a counter-model TLC must refute.",
}


def check(run, replay=None):
    import fam_builder
    return simple_family(run, FAM, replay, stages=[("declaration_history", fam_builder.FAM)])
